"""C18 - only executable circuits are accepted, and the Qobj says what the circuit is.

Harness: circuits are built through the public API from small specs; requests.put is replaced inside
this process by a recorder.  Compared exactly with the Coq model (instantiated with what gen/backend.py
read from the source and with the configuration records obtained by running configuration()):
  * verdict of submit_experiment (accepted / which validation message / which crash) and the number of
    requests that were sent,
  * the Qobj of every accepted experiment (labels, the 4+4 counts, instruction list, options),
  * as_qasm() of single instructions, get_counts(binary=True) dictionaries.
Independent oracles, written from the property text (own gate-name table, own validity predicate, own
binary formatting), run on every generated input."""
import itertools, os, sys, io, contextlib
from vlib import coqterm as ct

sys.path.insert(0, os.path.join(os.path.dirname(os.path.dirname(os.path.abspath(__file__))), "gen"))

HEADER_GEN = ("From Qib Require Import Backend.QobjCheck.\nFrom Run Require Import GenQobj.\nLocal Open Scope Z_scope.\n"
              "Definition bad := bad_cases_with gen_vt gen_cfg_qsim gen_cfg_qc.\n")
HEADER = HEADER_GEN


def header_doc():
    """used only when the translator refuses the source: the repaired code's tables, configuration records from running
    configuration() here, so that the deviation can still be turned into a concrete failing input"""
    try:
        build(("ctrl", [(0, 0)], False, ("plain", "z", (0, 1)))).as_qasm()
        checked = "false"
    except NotImplementedError:
        checked = "true"
    return ("From Qib Require Import Backend.QobjCheck.\nLocal Open Scope Z_scope.\n"
            "Definition bad := bad_cases_with (doc_vt_c %s) %s %s.\n"
            % (checked, t_cfg(ENV["procs"]["qsim"].configuration()), t_cfg(ENV["procs"]["qc"].configuration())))

PLAIN = {"id": "KId", "x": "KX", "y": "KY", "z": "KZ", "h": "KH", "sx": "KSx", "s": "KS", "sdg": "KSdg", "t": "KT",
         "tdg": "KTdg"}
ROT = {"rx": "KRx", "ry": "KRy", "rz": "KRz"}
OPT_KEYS = ["acquisition_mode", "acquisition_type", "averaging_mode", "chip", "debug", "default_qubits", "fridge",
            "log_file_level", "log_level", "log_level_std", "loops", "meas_return", "n_calibration_points", "name_suffix",
            "parameter_binds", "parametric_pulses", "reference_measurement", "relax", "relax_time", "sequence_settings",
            "store_nt_result", "trigger_time", "weighting_amp"]   # the order in which optional() tests them

ENV = {}


def setup():
    import qib
    from qib.operator import Gate
    F = [qib.field.Field(qib.field.ParticleType.QUBIT, qib.lattice.IntegerLattice((3,))) for _ in range(2)]

    class RawGate(Gate):
        """a user-defined gate: as_qasm reports a given name / its own qubits / given parameters"""

        def __init__(self, name, qubits, params):
            self.name, self.qubits, self.params = name, list(qubits), params

        def is_hermitian(self):
            return False

        def as_matrix(self):
            raise NotImplementedError

        @property
        def num_wires(self):
            return len(self.qubits)

        def particles(self):
            return list(self.qubits)

        def fields(self):
            return [q.field for q in self.qubits]

        def inverse(self):
            return self

        def as_circuit_matrix(self, fields):
            raise NotImplementedError

        def as_tensornet(self):
            raise NotImplementedError

        def as_qasm(self):
            d = {"name": self.name, "qubits": [q.index for q in self.qubits]}
            if self.params is not None:
                d["params"] = list(self.params)
            return d

        def __copy__(self):
            return RawGate(self.name, self.qubits, self.params)

        def __eq__(self, other):
            return self is other

    from qib.backend import ProcessorConfiguration, GateProperties
    from qib.backend.wmi import WMIQSimProcessor, WMIQCProcessor

    def custom1():
        # a 4-qubit line: cx only along the line, h configured as basis gate but without properties,
        # two entries for 'x' (the first one wins), ccx on (0,1,2) although 0-2 are not coupled
        return ProcessorConfiguration(
            backend_name="custom1", backend_version="0", basis_gates=["x", "h", "cx", "ccx", "rz", "iswap"], conditional=False,
            coupling_map=[[0, 1], [1, 0], [1, 2], [2, 1], [2, 3], [3, 2]],
            gates=[GateProperties("x", [[0], [1]]), GateProperties("x", [[0], [1], [2], [3]]),
                   GateProperties("cx", [[0, 1], [1, 2], [2, 3], [0, 2], [3, 1]]),
                   GateProperties("ccx", [[0, 1, 2], [1, 2, 3], [2, 1, 0]]),
                   GateProperties("rz", [[0], [1], [2], [3]], ["theta"]),
                   GateProperties("iswap", [[1, 2], [2, 1], [3, 0]], [])],
            local=False, max_shots=100, meas_level=2, memory=True, n_qubits=4, open_pulse=False, query_frequency=1,
            simulator=True)

    def custom2():
        # no coupling map, a gate with two parameters, a device smaller than the configured tuples
        return ProcessorConfiguration(
            backend_name="custom2", backend_version="0", basis_gates=["x", "cz", "u3", "ry"], conditional=False,
            coupling_map=[],
            gates=[GateProperties("x", [[0], [1], [2]]), GateProperties("cz", [[0, 1], [1, 2], [0, 2]]),
                   GateProperties("u3", [[0], [1]], ["theta", "phi", "lam"]), GateProperties("ry", [[0]], ["theta", "extra"])],
            local=False, max_shots=7, meas_level=2, memory=True, n_qubits=2, open_pulse=False, query_frequency=1,
            simulator=True)

    class Custom1(WMIQSimProcessor):
        @staticmethod
        def configuration():
            return custom1()

    class Custom2(WMIQCProcessor):
        @staticmethod
        def configuration():
            return custom2()

    ENV.update(qib=qib, F=F, RawGate=RawGate,
               procs={"qsim": WMIQSimProcessor("TOKEN"), "qc": WMIQCProcessor("TOKEN"),
                      "custom1": Custom1("TOKEN"), "custom2": Custom2("TOKEN")})


# ------------------------------------------------------------------------------------------ specs -> objects

def qubit(q):
    return ENV["qib"].field.Qubit(ENV["F"][q[0]], q[1])


def build(ins):
    qib = ENV["qib"]
    import qib.operator as qo
    k = ins[0]
    if k == "plain":
        cls = {"id": qo.IdentityGate, "x": qo.PauliXGate, "y": qo.PauliYGate, "z": qo.PauliZGate,
               "h": qo.HadamardGate, "sx": qo.SxGate, "s": qo.SGate, "sdg": qo.SAdjGate, "t": qo.TGate,
               "tdg": qo.TAdjGate}[ins[1]]
        return cls(qubit(ins[2]))
    if k == "rot":
        cls = {"rx": qo.RxGate, "ry": qo.RyGate, "rz": qo.RzGate}[ins[1]]
        return cls(ins[2], qubit(ins[3]))
    if k == "u3":
        return qo.RotationGate([ins[1], ins[2], ins[3]], qubit(ins[4]))
    if k == "iswap":
        return qo.ISwapGate(qubit(ins[1]), qubit(ins[2]))
    if k == "noqasm":
        cls = {"rxx": qo.RxxGate, "ryy": qo.RyyGate, "rzz": qo.RzzGate}[ins[1]]
        return cls(ins[3], qubit(ins[2][0]), qubit(ins[2][1]))
    if k == "raw":
        return ENV["RawGate"](ins[1], [qubit(q) for q in ins[2]], ins[3])
    if k == "ctrl":
        cs, std, inner = ins[1], ins[2], ins[3]
        state = None if std else [0] + [1] * (len(cs) - 1)
        return qo.ControlledGate(build(inner), len(cs), state).set_control([qubit(c) for c in cs])
    if k == "measure":
        return qo.MeasureInstruction([qubit(q) for q in ins[1]], list(ins[2]) if ins[2] else None)
    if k == "barrier":
        return qo.BarrierInstruction([qubit(q) for q in ins[1]])
    if k == "delay":
        return qo.DelayInstruction(ins[1], [qubit(q) for q in ins[2]])
    raise AssertionError(ins)


# ------------------------------------------------------------------------------------------ specs -> Coq

def t_q(q):
    return "(%d, %s)" % (q[0], zl(q[1]))


def zl(n):
    n = int(n)
    return str(n) if n >= 0 else "(%d)" % n


def t_zs(l):
    return ct.lst([zl(x) for x in l])


def t_str(s):
    return ct.lst([str(ord(c)) for c in s])


def t_gate(ins):
    k = ins[0]
    if k == "plain":
        return "Plain %s %s" % (PLAIN[ins[1]], t_q(ins[2]))
    if k == "rot":
        return "Rot %s %s %s" % (ROT[ins[1]], zl(ins[2]), t_q(ins[3]))
    if k == "u3":
        return "U3 %s %s %s %s" % (zl(ins[1]), zl(ins[2]), zl(ins[3]), t_q(ins[4]))
    if k == "iswap":
        return "ISwap %s %s" % (t_q(ins[1]), t_q(ins[2]))
    if k == "noqasm":
        return "NoQasm %s" % ct.lst([t_q(q) for q in ins[2]])
    if k == "raw":
        return "Raw %s %s %s" % (t_str(ins[1]), ct.lst([t_q(q) for q in ins[2]]),
                                 "None" if ins[3] is None else "(Some %s)" % t_zs(ins[3]))
    if k == "ctrl":
        return "Ctrl %s %s (%s)" % (ct.lst([t_q(q) for q in ins[1]]), ct.b(ins[2]), t_gate(ins[3]))
    if k == "measure":
        return "Measure %s %s" % (ct.lst([t_q(q) for q in ins[1]]), t_zs(ins[2]))
    if k == "barrier":
        return "Barrier %s" % ct.lst([t_q(q) for q in ins[1]])
    if k == "delay":
        return "Delay %s %s" % (zl(ins[1]), ct.lst([t_q(q) for q in ins[2]]))
    raise AssertionError(ins)


def t_circ(spec):
    return ct.lst([t_gate(i) for i in spec])


def t_qasm(d):
    def o(x):
        return "None" if x is None else "(Some %s)" % t_zs(x)
    extra = set(d) - {"name", "qubits", "params", "memory", "duration"}
    assert not extra, extra
    return "{| q_name := %s; q_qubits := %s; q_params := %s; q_memory := %s; q_duration := %s |}" % (
        t_str(d["name"]), t_zs(d["qubits"]), o(d.get("params")), o(d.get("memory")),
        "None" if "duration" not in d else "(Some %s)" % zl(d["duration"]))


def t_cfg(cfg):
    gates = ["{| gp_name := %s; gp_qubits := %s; gp_nparams := %d |}"
             % (t_str(g.name), ct.lst([t_zs(q) for q in g.qubits]), len(g.parameters)) for g in cfg.gates]
    return "{| c_basis := %s; c_coupling := %s; c_gates := %s; c_max_shots := %s; c_nqubits := %s |}" % (
        ct.lst([t_str(b) for b in cfg.basis_gates]), ct.lst([t_zs(p) for p in cfg.coupling_map]), ct.lst(gates),
        zl(cfg.max_shots), zl(cfg.n_qubits))


def t_proc(name):
    if name == "qsim":
        return "PQsim"
    if name == "qc":
        return "PQc"
    return "(PCustom cfg_%s)" % name


def custom_defs():
    """the custom configuration records, defined once per case file"""
    return "".join("Definition cfg_%s : config := %s.\n" % (n, t_cfg(ENV["procs"][n].configuration()))
                   for n in ("custom1", "custom2"))


# ------------------------------------------------------------------------------------------ running the implementation

class Recorder:
    def __init__(self):
        self.calls = []

    def put(self, url, headers=None, json=None, timeout=None, **kw):
        import requests
        import copy
        self.calls.append((url, copy.deepcopy(json)))
        r = requests.Response()
        r.status_code = 200
        r.json = lambda: {"job_id": "J1", "execution_datetime": "2024-01-01T00:00:00", "status": "pending"}
        return r


MSG = [("Number of shots exceeds", "RShots"), ("is not supported by the processor", "RBasis"),
       ("is not configured by the processor", "RNotConfigured"), ("not configured for the used qubits", "RQubits"),
       ("not configured for the used parameters", "RParams"), ("not performed on coupled qubits", "RCoupling"),
       ("Number of qubits exceeds", "RRange"), ("does not contain any instruction", "REmpty"),
       ("min()", "CMinEmpty")]


def classify(ex):
    if isinstance(ex, UnboundLocalError):
        return "CUnbound"
    if isinstance(ex, ValueError):
        for frag, v in MSG:
            if frag in str(ex):
                return v
    if isinstance(ex, NotImplementedError):
        return "(CQasm ENotImpl)"
    if isinstance(ex, AttributeError):
        return "(CQasm EAttr)"
    if isinstance(ex, TypeError):
        return "(CQasm EType)"
    return "OTHER:" + type(ex).__name__ + ":" + str(ex)[:60]


def mk_options(o):
    import copy
    from qib.backend.wmi import WMIOptions
    return WMIOptions(shots=o["shots"], init_qubits=o["init_qubits"], do_emulation=o["do_emulation"],
                      **copy.deepcopy(o["optional"]))


def submit(procname, spec, o):
    """-> verdict, number of requests, experiment or None, recorder"""
    return submit_circ(procname, ENV["qib"].Circuit([build(i) for i in spec]), o)


def submit_circ(procname, circ, o):
    """submit a given circuit OBJECT -> verdict, number of requests, experiment or None, recorder"""
    import requests
    proc = ENV["procs"][procname]
    rec = Recorder()
    saved = requests.put
    requests.put = rec.put
    try:
        with contextlib.redirect_stdout(io.StringIO()):
            try:
                exp = proc.submit_experiment("C18", circ, mk_options(o))
                return "Accept", len(rec.calls), exp, rec
            except Exception as ex:
                return classify(ex), len(rec.calls), None, rec
    finally:
        requests.put = saved


def canon_qobj(q, o):
    """the modelled part of the Qobj, plus an oracle check of the copied parts"""
    e = q["experiments"][0]
    h = e["header"]
    ql = [x[1] for x in h["qubit_labels"]["qubits"]]
    cl = [x[1] for x in h["clbit_labels"]["clbits"]]
    assert all(x[0] == "q" for x in h["qubit_labels"]["qubits"]) and all(x[0] == "c" for x in h["clbit_labels"]["clbits"])
    nq = [h["n_qubits"], h["qreg_sizes"]["q"], e["config"]["n_qubits"], q["config"]["n_qubits"]]
    ms = [h["memory_slots"], h["creg_sizes"]["c"], e["config"]["memory_slots"], q["config"]["memory_slots"]]
    required = {"shots", "memory", "meas_level", "init_qubits", "do_emulation", "memory_slots", "n_qubits"}
    present = [k for k in OPT_KEYS if k in q["config"]]
    unknown = set(q["config"]) - required - set(OPT_KEYS)
    return {"ql": ql, "cl": cl, "nq": nq, "ms": ms, "ins": e["instructions"], "shots": q["config"]["shots"],
            "init": q["config"]["init_qubits"], "emu": q["config"]["do_emulation"], "optional": present,
            "unknown": unknown}


def t_qobj(c):
    return ("{| o_qubit_labels := %s; o_nq := %s; o_clbit_labels := %s; o_ms := %s; o_instructions := %s; "
            "o_shots := %s; o_init_qubits := %s; o_do_emulation := %s; o_optional := %s |}" % (
                t_zs(c["ql"]), t_zs(c["nq"]), t_zs(c["cl"]), t_zs(c["ms"]), ct.lst([t_qasm(d) for d in c["ins"]]),
                zl(c["shots"]), ct.b(c["init"]), ct.b(c["emu"]), ct.lst([ct.nat(OPT_KEYS.index(k)) for k in c["optional"]])))


def t_options(o):
    opt = ct.lst(["(%s, %s)" % (ct.nat(i), ct.b(bool(o["optional"].get(k)))) for i, k in enumerate(OPT_KEYS)])
    return "{| op_shots := %s; op_init_qubits := %s; op_do_emulation := %s; op_optional := %s |}" % (
        zl(o["shots"]), ct.b(o["init_qubits"]), ct.b(o["do_emulation"]), opt)


# ------------------------------------------------------------------------------------------ oracle (property text)

def oracle_view(ins):
    """(OpenQASM name, qubit indices, number of parameters) of a standard instruction, from the OpenQASM
    naming convention; None if the instruction has no standard name"""
    k = ins[0]
    if k == "plain":
        return ins[1], [ins[2][1]], 0
    if k == "rot":
        return ins[1], [ins[3][1]], 1
    if k == "u3":
        return "u3", [ins[4][1]], 3
    if k == "iswap":
        return "iswap", [ins[1][1], ins[2][1]], 0
    if k == "raw":
        return ins[1], [q[1] for q in ins[2]], len(ins[3] or [])
    if k == "ctrl" and ins[2]:
        cs, inner = ins[1], ins[3]
        if inner[0] == "plain" and len(cs) == 1 and inner[1] in ("x", "y", "z", "h", "s", "sdg"):
            return "c" + inner[1], [cs[0][1], inner[2][1]], 0
        if inner[0] == "rot" and len(cs) == 1:
            return "c" + inner[1], [cs[0][1], inner[3][1]], 1
        if inner[0] == "plain" and len(cs) == 2 and inner[1] == "x":
            return "ccx", [cs[0][1], cs[1][1], inner[2][1]], 0
    return None


def used_qubits(ins):
    k = ins[0]
    if k == "ctrl":
        return list(ins[1]) + used_qubits(ins[3])
    if k in ("plain",):
        return [ins[2]]
    if k == "rot":
        return [ins[3]]
    if k == "u3":
        return [ins[4]]
    if k == "iswap":
        return [ins[1], ins[2]]
    if k in ("noqasm", "raw", "delay"):
        return list(ins[2])
    if k in ("measure", "barrier"):
        return list(ins[1])
    raise AssertionError(ins)


def instr_executable(cfg, ins):
    """the property text: a basis gate, on a configured qubit tuple, respecting the coupling map, with the
    configured number of parameters, every addressed index inside the processor (measurements: indices only)"""
    n = cfg.n_qubits
    if any(not (0 <= q[1] < n) for q in used_qubits(ins)):
        return False
    if ins[0] == "measure":
        return len(ins[1]) > 0
    v = oracle_view(ins)
    if v is None:
        return False
    name, qubits, nparams = v
    if name not in cfg.basis_gates:
        return False
    entries = [g for g in cfg.gates if g.name == name]
    if not any(qubits in [list(t) for t in g.qubits] and len(g.parameters) == nparams for g in entries):
        return False
    if cfg.coupling_map and len(qubits) > 1:
        cm = [list(p) for p in cfg.coupling_map]
        if any([qubits[i], qubits[j]] not in cm for i in range(len(qubits)) for j in range(i + 1, len(qubits))):
            return False
    return True


def oracle_submit(ctx, desc, procname, spec, o, verdict, nreq, exp, rec):
    cfg = ENV["procs"][procname].configuration()

    def bad(sig, expected, observed):
        ctx.fail(sig, desc, expected, observed)

    if verdict.startswith("OTHER"):
        bad("validate:unexpected-exception", "accept or a validation error", verdict)
    if verdict == "Accept":
        if not (o["shots"] <= cfg.max_shots):
            bad("accept:shots-above-limit", "<= %d" % cfg.max_shots, o["shots"])
        for pos, ins in enumerate(spec):
            if not instr_executable(cfg, ins):
                in_range = all(0 <= q[1] < cfg.n_qubits for q in used_qubits(ins))
                if not in_range:
                    sig = "accept:qubit-index-outside-processor" + ("" if pos == len(spec) - 1 else ":not-last-instruction")
                elif ins[0] == "ctrl" and not ins[2]:
                    sig = "accept:nonstandard-control-state-sent-as-standard-gate"
                else:
                    sig = "accept:instruction-not-executable"
                bad(sig, "refused", {"position": pos, "instruction": ins})
        if len({tuple(q) for i in spec for q in used_qubits(i)}) > cfg.n_qubits:
            bad("accept:more-qubits-than-processor", "<= %d qubits" % cfg.n_qubits, "accepted")
        if nreq != 1:
            bad("accept:not-exactly-one-request", 1, nreq)
    else:
        if nreq != 0:
            bad("refuse:request-sent-before-refusal", 0, nreq)
        if verdict == "CUnbound" and not spec:
            bad("validate:empty-circuit-crashes-with-UnboundLocalError", "a validation error (ValueError) or acceptance", verdict)
    if exp is not None:
        q = exp.as_qasm()
        if rec.calls and rec.calls[0][1] != {"qobj": q}:
            bad("qobj:request-body-differs-from-as_qasm", "same", "different")
        c = canon_qobj(q, o)
        if len(set(c["nq"])) != 1 or c["nq"][0] != len(c["ql"]):
            bad("qobj:qubit-counts-disagree", len(c["ql"]), c["nq"])
        if len(set(c["ms"])) != 1 or c["ms"][0] != len(c["cl"]):
            bad("qobj:memory-counts-disagree", len(c["cl"]), c["ms"])
        if c["ql"] != sorted(c["ql"]) or c["cl"] != sorted(set(c["cl"])):
            bad("qobj:labels-not-sorted-or-duplicated", "sorted", (c["ql"], c["cl"]))
        if len(c["ins"]) != len(spec):
            bad("qobj:instruction-count", len(spec), len(c["ins"]))
        for ins, d in zip(spec, c["ins"]):
            if ins[0] == "measure":
                want_q = [x[1] for x in ins[1]]
                want_m = list(ins[2]) if ins[2] else want_q
                if d["name"] != "measure" or d["qubits"] != want_q or d.get("memory") != want_m:
                    bad("qobj:measure-instruction-wrong", (want_q, want_m), d)
                if any(m not in c["cl"] for m in d.get("memory", [])):
                    bad("qobj:memory-slot-not-labelled", c["cl"], d)
            else:
                v = oracle_view(ins)
                if v is not None:
                    params = {"rot": lambda: [ins[2]], "u3": lambda: list(ins[1:4]), "raw": lambda: list(ins[3] or []),
                              "ctrl": lambda: ([ins[3][2]] if ins[3][0] == "rot" else [])}.get(ins[0], lambda: [])()
                    got = [int(p) for p in d.get("params", [])]
                    if d["name"] != v[0] or d["qubits"] != v[1] or got != params:
                        bad("qobj:instruction-does-not-say-what-the-gate-is", (v, params), d)
            if any(i not in c["ql"] for i in d["qubits"]):
                bad("qobj:qubit-index-not-labelled", c["ql"], d)
        if c["shots"] != o["shots"] or c["init"] != o["init_qubits"] or c["emu"] != o["do_emulation"]:
            bad("qobj:options-not-copied", o, (c["shots"], c["init"], c["emu"]))
        for k in OPT_KEYS:
            val = o["optional"].get(k)
            if bool(val) != (k in q["config"]) or (val and q["config"][k] != val):
                bad("qobj:optional-setting-wrong", (k, val), q["config"].get(k))
        if c["unknown"]:
            bad("qobj:unknown-config-keys", "none", sorted(c["unknown"]))
        if q["header"]["backend_name"] != cfg.backend_name or q["config"]["memory"] != cfg.memory \
                or q["config"]["meas_level"] != cfg.meas_level or h_name(q) != "C18":
            bad("qobj:backend-header-wrong", cfg.backend_name, q["header"])


def h_name(q):
    return q["experiments"][0]["header"]["name"]


# ---- histories: the same observer called again, after the caller has modified what the first call returned.
# "The serialised Qobj lists the circuit's instructions ..." and "... with counts unchanged" are statements about every
# call; a Qobj / dictionary handed to the caller must not be a window into the experiment's own state.
SIG_QOBJ_ALIAS = "history:as_qasm-changed-by-modifying-a-returned-qobj"
SIG_COUNTS_ALIAS = "history:get_counts-changed-by-modifying-a-returned-dictionary"
UNREPAIRED = {}     # sig -> True when the always-run probe input fails (the defect is present in this tree)


def scribble(x):
    """modify every mutable container reachable from x (after descending into it)"""
    if isinstance(x, dict):
        for v in list(x.values()):
            scribble(v)
        x["__scribble__"] = 1
    elif isinstance(x, list):
        for v in list(x):
            scribble(v)
        x.append("__scribble__")


def alias_sig(ctx, sig, probe):
    """the probe input decides whether the tree has the (known) defect; in a tree where the probe passes, any other
    failing input of the same kind is reported under a different signature, i.e. as a violation"""
    if probe:
        return sig
    return sig if UNREPAIRED.get(sig) else sig + ":regression"


def history_qobj(ctx, desc, exp, sent, probe=False):
    import copy
    q1 = exp.as_qasm()
    ref = copy.deepcopy(q1)
    if sent is not None and ref != sent:
        ctx.fail("history:as_qasm-differs-from-what-was-sent", desc, "the Qobj of the submission request", "different")
    if exp.as_qasm() != ref:
        ctx.fail("history:as_qasm-not-repeatable", desc, "same Qobj", "different")
    scribble(q1["experiments"])
    scribble(q1["header"])
    q1["config"]["shots"] = -1
    ok = (exp.as_qasm() == ref)
    if probe:
        UNREPAIRED[SIG_QOBJ_ALIAS] = not ok
    if not ok:
        ctx.fail(alias_sig(ctx, SIG_QOBJ_ALIAS, probe), desc, "the Qobj as before", "the caller's modifications show up in a fresh as_qasm()")
    ctx.count("history_as_qasm")
    return ok


def history_counts(ctx, desc, res, counts, want_binary, probe=False):
    """res: a WMIExperimentResults holding the server's dictionary `counts`"""
    import copy
    ref = copy.deepcopy(counts)
    b1 = res.get_counts(binary=True)
    b1["__scribble__"] = 1
    for k in list(b1):
        b1[k] = -5
    g = res.get_counts()
    for k in list(g):
        g[k] = -5
    g["0xfff"] = 1
    ok = (res.get_counts() == ref and list(res.get_counts(binary=True).items()) == want_binary)
    if probe:
        UNREPAIRED[SIG_COUNTS_ALIAS] = not ok
    if not ok:
        ctx.fail(alias_sig(ctx, SIG_COUNTS_ALIAS, probe), desc, (ref, want_binary),
                 (res.get_counts(), list(res.get_counts(binary=True).items())))
    ctx.count("history_get_counts")
    return ok


# ---- submission histories on ONE circuit object: the verdict, the number of requests and the Qobj of a submission are a
# function of what the circuit IS at that moment, whatever was looked at / submitted before and however the circuit got
# there (instruction objects re-targeted in place through their public API, gates appended / replaced).  Reference: a
# freshly built circuit with the same content, submitted to the same processor.

def fix_ins(ins):
    """JSON lists -> the tuple form of a spec instruction"""
    ins = list(ins)
    k = ins[0]
    tq = lambda q: tuple(q)
    if k == "plain":
        return ("plain", ins[1], tq(ins[2]))
    if k == "rot":
        return ("rot", ins[1], ins[2], tq(ins[3]))
    if k == "u3":
        return ("u3", ins[1], ins[2], ins[3], tq(ins[4]))
    if k == "iswap":
        return ("iswap", tq(ins[1]), tq(ins[2]))
    if k == "noqasm":
        return ("noqasm", ins[1], [tq(q) for q in ins[2]], ins[3])
    if k == "raw":
        return ("raw", ins[1], [tq(q) for q in ins[2]], ins[3])
    if k == "ctrl":
        return ("ctrl", [tq(q) for q in ins[1]], ins[2], fix_ins(ins[3]))
    if k == "measure":
        return ("measure", [tq(q) for q in ins[1]], list(ins[2]))
    if k == "barrier":
        return ("barrier", [tq(q) for q in ins[1]])
    if k == "delay":
        return ("delay", ins[1], [tq(q) for q in ins[2]])
    raise AssertionError(ins)


def retarget(obj, old, new):
    """bring the instruction OBJECT (in the state of spec `old`) to the state of spec `new` in place, through the public
    API of its class: on(...), set_control(...), target_gate(), the theta attribute"""
    k = old[0]
    assert new[0] == k, (old, new)
    if k == "plain":
        assert old[1] == new[1]
        obj.on(qubit(new[2]))
    elif k == "rot":
        assert old[1] == new[1]
        obj.theta = new[2]
        obj.on(qubit(new[3]))
    elif k == "u3":
        assert old[1:4] == new[1:4]
        obj.on(qubit(new[4]))
    elif k == "iswap":
        obj.on(qubit(new[1]), qubit(new[2]))
    elif k == "raw":
        obj.name, obj.qubits, obj.params = new[1], [qubit(q) for q in new[2]], new[3]
    elif k == "ctrl":
        assert old[2] == new[2] and len(old[1]) == len(new[1])
        obj.set_control([qubit(c) for c in new[1]])
        retarget(obj.target_gate(), old[3], new[3])
    elif k == "measure":
        obj.on([qubit(q) for q in new[1]], list(new[2]) if new[2] else None)
    elif k == "barrier":
        obj.on([qubit(q) for q in new[1]])
    elif k == "delay":
        assert old[1] == new[1]
        obj.on([qubit(q) for q in new[2]])
    else:
        raise AssertionError(old)


def mutate_spec(rng, ins, n, mode):
    """a spec of the same instruction class with other qubits / clbits / angle; mode 'in': indices inside the n-qubit
    processor, 'out': at least one index outside, 'any': anything incl. the second field"""
    def rq(force_out=False):
        if force_out or (mode == "any" and rng.random() < 0.25):
            return (0, rng.choice([n, n + 1, n + 4, -1]))
        return (1 if (mode == "any" and rng.random() < 0.1) else 0, rng.randrange(n))
    k = ins[0]
    out1 = (mode == "out")
    if k == "plain":
        return ("plain", ins[1], rq(out1))
    if k == "rot":
        return ("rot", ins[1], rng.choice([ins[2], ins[2] + 1, -3, 90]), rq(out1))
    if k == "u3":
        return ins[:4] + (rq(out1),)
    if k == "iswap":
        a = rq(out1)
        b = rq()
        while b == a and rng.random() < 0.9:
            b = rq()
        return ("iswap", a, b) if rng.random() < 0.5 else ("iswap", b, a)
    if k == "raw":
        return ("raw", ins[1], [rq(out1 and i == 0) for i in range(len(ins[2]))], ins[3])
    if k == "ctrl":
        inner = mutate_spec(rng, ins[3], n, "in" if out1 and rng.random() < 0.5 else mode)
        inner_out = any(not (0 <= q[1] < n) for q in used_qubits(inner))
        cs = [rq(out1 and not inner_out and i == 0) for i in range(len(ins[1]))]
        return ("ctrl", cs, ins[2], inner)
    if k == "measure":
        m = rng.choice([1, 1, 2, 2, 3, len(ins[1]) or 1])
        qs = [rq(out1 and i == 0) for i in range(m)]
        rng.shuffle(qs)
        cl = [] if rng.random() < 0.5 else [rng.randrange(0, 8) for _ in range(m)]
        return ("measure", qs, cl)
    if k == "barrier":
        return ("barrier", [rq(out1 and i == 0) for i in range(rng.randint(1, 3))])
    if k == "delay":
        return ("delay", ins[1], [rq(out1 and i == 0) for i in range(rng.randint(1, 3))])
    return ins


def circuit_view(circ):
    """what Circuit's observers say: particles, clbits, as_qasm (or the exception class)"""
    out = {}
    F = ENV["F"]
    for name, f in (("particles", lambda: [[next((i for i, fl in enumerate(F) if fl is p.field), -1), p.index] for p in circ.particles()]),
                    ("clbits", lambda: list(circ.clbits())), ("as_qasm", lambda: circ.as_qasm())):
        try:
            out[name] = f()
        except Exception as ex:
            out[name] = "raises " + type(ex).__name__
    return out


def strip_id(q):
    q = dict(q)
    q.pop("qobj_id", None)
    return q


def run_history(ctx, hist, oracle=True):
    """hist = {"kind": "history", "proc", "ctor": "list" | "append", "circuit": spec, "options", "steps": [{"muts": [...]}]}
    every step: apply the mutations to the ONE circuit object, then look at it and submit it; compare with a fresh circuit"""
    qib = ENV["qib"]
    procname, o = hist["proc"], hist["options"]
    cur = [fix_ins(i) for i in hist["circuit"]]
    objs = [build(i) for i in cur]
    if hist.get("ctor", "list") == "list":
        circ = qib.Circuit(objs)              # stores the caller's instruction objects
    else:
        circ = qib.Circuit()
        for g in objs:
            circ.append_gate(g)               # stores copies; the history works on circ.gates[...] (public attribute)
    for si, step in enumerate(hist["steps"]):
        desc = dict(hist, steps=hist["steps"][:si + 1], step=si)
        for m in step["muts"]:
            if m[0] == "retarget":
                new = fix_ins(m[2])
                retarget(circ.gates[m[1]], cur[m[1]], new)
                cur[m[1]] = new
            elif m[0] == "append":
                circ.append_gate(build(fix_ins(m[1])))
                cur.append(fix_ins(m[1]))
            elif m[0] == "prepend":
                circ.prepend_gate(build(fix_ins(m[1])))
                cur.insert(0, fix_ins(m[1]))
            elif m[0] == "setitem":
                circ.gates[m[1]] = build(fix_ins(m[2]))
                cur[m[1]] = fix_ins(m[2])
            elif m[0] == "delete":
                del circ.gates[m[1]]
                del cur[m[1]]
            elif m[0] == "peek":                # the observers are called between two mutations
                circuit_view(circ)
            else:
                raise AssertionError(m)
        fresh = qib.Circuit([build(i) for i in cur])
        v1, v2 = circuit_view(circ), circuit_view(fresh)
        for name in ("particles", "clbits", "as_qasm"):
            if v1[name] != v2[name]:
                ctx.fail("history:circuit-%s-differs-from-a-fresh-equal-circuit" % name, desc, v2[name], v1[name])
        if step.get("submit", True):
            p = step.get("proc", procname)
            verdict, nreq, exp, rec = submit_circ(p, circ, o)
            fverdict, fnreq, fexp, frec = submit_circ(p, fresh, o)
            ctx.count("history_submit_" + verdict.split(":")[0])
            if verdict != fverdict:
                ctx.fail("history:resubmission-verdict-differs-from-a-fresh-equal-circuit", desc, fverdict, verdict)
            if nreq != fnreq:
                ctx.fail("history:resubmission-request-count-differs-from-a-fresh-equal-circuit", desc, fnreq, nreq)
            if exp is not None and fexp is not None:
                q1, q2 = strip_id(exp.as_qasm()), strip_id(fexp.as_qasm())
                if q1 != q2:
                    e1, e2 = q1["experiments"][0], q2["experiments"][0]
                    ctx.fail("history:resubmission-qobj-differs-from-a-fresh-equal-circuit", desc,
                             {"header": e2["header"], "instructions": e2["instructions"]} if e1 != e2 else q2["config"],
                             {"header": e1["header"], "instructions": e1["instructions"]} if e1 != e2 else q1["config"])
                if rec.calls and frec.calls and strip_id(rec.calls[0][1]["qobj"]) != strip_id(frec.calls[0][1]["qobj"]):
                    ctx.fail("history:resubmission-request-body-differs-from-a-fresh-equal-circuit", desc, "same body", "different")
            if oracle:
                oracle_submit(ctx, desc, p, cur, o, verdict, nreq, exp, rec)      # the property itself, on the re-submission


def history_inputs(rng, thorough):
    H = []
    q = lambda i: (0, i)
    for procname in ("qsim", "qc", "custom1", "custom2"):
        cfg = ENV["procs"][procname].configuration()
        n = cfg.n_qubits
        o = dict(DEFAULT_OPT, shots=min(1024, cfg.max_shots))
        one_, two_, meas_ = valid_pool(procname)
        # scripted: submit; re-target ONE instruction in place out of the processor; back inside; elsewhere inside -- for
        # every position of a valid circuit ending / starting with a measurement, both ways of building the circuit
        bases = [[one_[0], rng.choice(one_), meas_[0]], [meas_[-1], rng.choice(one_ + two_)],
                 [rng.choice(one_ + two_), rng.choice(meas_), rng.choice(one_ + two_)]]
        bases += base_circuits(procname, rng, 6 if thorough else 2)
        for base in bases:
            for pos in range(len(base)):
                if base[pos][0] == "measure" and not base[pos][1]:
                    continue
                for ctor in (("list", "append") if thorough or pos == len(base) - 1 else (rng.choice(["list", "list", "append"]),)):
                    steps = [{"muts": []},
                             {"muts": [["retarget", pos, mutate_spec(rng, base[pos], n, "out")]]},
                             {"muts": [["retarget", pos, mutate_spec(rng, base[pos], n, "in")]]},
                             {"muts": [["retarget", pos, mutate_spec(rng, base[pos], n, "out")], ["peek"],
                                       ["retarget", pos, mutate_spec(rng, base[pos], n, "in")]]},
                             {"muts": [["retarget", pos, base[pos]]]}]
                    H.append({"kind": "history", "proc": procname, "ctor": ctor, "circuit": base, "options": o, "steps": steps})
        # the seeded scenario in its plainest form: X, SX, measure q0; measure re-targeted to qubit n / n + 4 / two qubits
        H.append({"kind": "history", "proc": procname, "ctor": "list", "options": o,
                  "circuit": [("plain", "x", q(0)), ("plain", "sx" if procname in ("qsim", "qc") else "x", q(0)), ("measure", [q(0)], [])],
                  "steps": [{"muts": []}, {"muts": [["retarget", 2, ("measure", [q(n)], [0])]]},
                            {"muts": [["retarget", 2, ("measure", [q(0), q(n - 1)], [])]]},
                            {"muts": [["retarget", 2, ("measure", [q(n + 4)], [])]]},
                            {"muts": [["retarget", 0, ("plain", "x", q(n))]]},
                            {"muts": [["retarget", 0, ("plain", "x", q(0))], ["retarget", 2, ("measure", [q(0)], [5])]]}]})
        # random histories: 2-5 steps of 1-3 changes (in-place re-targeting, append / prepend, replacing / deleting an entry
        # of circuit.gates, looking at the circuit in between), sometimes without submitting after a step
        D = [d for _, d in defects(procname)]
        for _ in range((120 if thorough else 14) * (2 if procname == "qsim" else 1)):
            base = rng.choice(base_circuits(procname, rng, 1) + [[rng.choice(meas_)]])
            cur = list(base)
            steps = [{"muts": []}] if rng.random() < 0.8 else []
            for _s in range(rng.randint(2, 5)):
                muts = []
                for _m in range(rng.randint(1, 3)):
                    r = rng.random()
                    if r < 0.65 and cur:
                        pos = rng.randrange(len(cur))
                        new = mutate_spec(rng, cur[pos], n, rng.choice(["in", "in", "out", "any"]))
                        muts.append(["retarget", pos, new])
                        cur[pos] = new
                    elif r < 0.75:
                        ins = rng.choice(one_ + two_ + meas_ + D[:4])
                        muts.append([rng.choice(["append", "prepend"]), ins])
                        cur = cur + [ins] if muts[-1][0] == "append" else [ins] + cur
                    elif r < 0.85 and cur:
                        pos = rng.randrange(len(cur))
                        ins = rng.choice(one_ + two_ + meas_)
                        muts.append(["setitem", pos, ins])
                        cur[pos] = ins
                    elif r < 0.9 and len(cur) > 1:
                        pos = rng.randrange(len(cur))
                        muts.append(["delete", pos])
                        del cur[pos]
                    else:
                        muts.append(["peek"])
                st = {"muts": muts}
                if rng.random() < 0.15:
                    st["submit"] = False
                if rng.random() < 0.1 and procname in ("qsim", "qc"):
                    st["proc"] = "qc" if procname == "qsim" else "qsim"
                steps.append(st)
            H.append({"kind": "history", "proc": procname, "ctor": rng.choice(["list", "list", "append"]), "circuit": base,
                      "options": o, "steps": steps})
    return H


def histories(ctx):
    ctx.rules.append("submission histories on ONE circuit object and processor: submit, change the circuit (instruction objects held by "
                     "the circuit re-targeted IN PLACE through on(...) / set_control / target_gate().on / theta - measurements, gates, "
                     "controlled gates, barriers, delays -, to qubits inside and outside the processor, other clbits; append_gate / "
                     "prepend_gate; entries of circuit.gates replaced or deleted; particles()/clbits()/as_qasm() looked at in between), "
                     "submit the SAME object again, 2-6 rounds, circuits built by Circuit([...]) and by append_gate: verdict, number of "
                     "requests, Qobj, request body and Circuit.particles/clbits/as_qasm must equal those of a freshly built equal "
                     "circuit, and the property oracle (accepted => every instruction executable, labels cover the indices) runs on "
                     "every re-submission")
    for hist in history_inputs(ctx.rng, ctx.thorough):
        ctx.count("history_circuit_%s_%s" % (hist["proc"], hist["ctor"]))
        for st in hist["steps"]:
            for m in st["muts"]:
                ctx.count("history_mut_" + m[0])
        try:
            run_history(ctx, hist)
        except Exception as ex:
            ctx.fail("history:harness-crash", hist, "every step evaluates", "%s: %s" % (type(ex).__name__, ex))
        ctx.nontriv(("history", repr(hist)[:2000]))


# ------------------------------------------------------------------------------------------ generators

def valid_pool(procname):
    """valid instructions of a processor (single field 0)"""
    q = lambda i: (0, i)
    if procname == "qsim":
        one = [("plain", k, q(i)) for k in ("id", "x", "y", "h", "sx") for i in range(3)]
        one += [("rot", k, th, q(i)) for k in ("rx", "ry", "rz") for i in range(3) for th in (90, -3)]
        two = [("iswap", q(a), q(b)) for a in range(3) for b in range(3) if a != b]
        two += [("ctrl", [q(a)], True, ("plain", "z", q(b))) for a in range(3) for b in range(3) if a != b]
        meas = [("measure", [q(0), q(1), q(2)], []), ("measure", [q(1)], []), ("measure", [q(2), q(0)], [5, 0]),
                ("measure", [q(0)], [7]), ("measure", [q(0), q(0)], []), ("measure", [q(0), q(1)], [3, 3])]
        return one, two, meas
    if procname == "qc":
        one = [("plain", k, q(0)) for k in ("id", "x", "y", "sx")] + [("rot", "rz", th, q(0)) for th in (90, 1)]
        meas = [("measure", [q(0)], []), ("measure", [q(0), q(2)], []), ("measure", [q(1), q(0)], [3, 1])]
        return one, [], meas
    if procname == "custom1":
        one = [("plain", "x", q(i)) for i in range(2)] + [("rot", "rz", 4, q(i)) for i in range(4)]
        two = [("ctrl", [q(0)], True, ("plain", "x", q(1))), ("ctrl", [q(1)], True, ("plain", "x", q(2))),
               ("ctrl", [q(2)], True, ("plain", "x", q(3))), ("iswap", q(1), q(2)), ("iswap", q(2), q(1))]
        meas = [("measure", [q(0), q(1), q(2), q(3)], []), ("measure", [q(3)], [0])]
        return one, two, meas
    if procname == "custom2":
        one = [("plain", "x", q(i)) for i in range(2)] + [("u3", 1, 2, 3, q(0)), ("raw", "ry", [q(0)], [1, 2])]
        two = [("ctrl", [q(0)], True, ("plain", "z", q(1)))]
        meas = [("measure", [q(0), q(1)], []), ("measure", [q(1)], [])]
        return one, two, meas
    raise AssertionError(procname)


def defects(procname):
    """(kind, instruction): each instruction is wrong in exactly one way for this processor"""
    q = lambda i: (0, i)
    D = []
    if procname == "qsim":
        D += [("basis", ("plain", "z", q(0))), ("basis", ("plain", "t", q(1))), ("basis", ("u3", 1, 2, 3, q(0))),
              ("basis", ("ctrl", [q(0)], True, ("plain", "x", q(1)))), ("basis", ("barrier", [q(0)])),
              ("basis", ("delay", 10, [q(0), q(1)])), ("basis", ("barrier", [])),
              ("basis", ("ctrl", [q(0), q(1)], True, ("plain", "x", q(2)))), ("basis", ("ctrl", [q(1)], True, ("rot", "rz", 5, q(0)))),
              ("qubits", ("plain", "x", q(3))), ("qubits", ("plain", "h", q(-1))), ("qubits", ("rot", "rx", 1, q(7))),
              ("qubits", ("iswap", q(1), q(1))), ("qubits", ("iswap", q(0), q(3))),
              ("qubits", ("ctrl", [q(3)], True, ("plain", "z", q(0)))), ("qubits", ("raw", "x", [q(0), q(1)], None)),
              ("params", ("raw", "ry", [q(0)], [75, 85, 95])), ("params", ("raw", "rz", [q(1)], None)),
              ("params", ("raw", "x", [q(2)], [1])), ("params", ("raw", "cz", [q(0), q(1)], [0])),
              ("range", ("measure", [q(5)], [])), ("range", ("measure", [q(0), q(3)], [])), ("range", ("measure", [q(-1)], [0])),
              ("range", ("measure", [q(0), q(1), q(2), q(3)], [])),
              ("crash", ("noqasm", "rzz", [q(0), q(1)], 1)), ("crash", ("ctrl", [q(0)], True, ("u3", 1, 2, 3, q(1)))),
              ("crash", ("ctrl", [q(0)], True, ("plain", "t", q(1)))), ("crash", ("measure", [], [])),
              ("crash", ("ctrl", [q(0)], True, ("ctrl", [q(1)], True, ("plain", "x", q(2))))),
              ("ctrlstate", ("ctrl", [q(0)], False, ("plain", "z", q(1)))),
              ("qubits", ("ctrl", [q(1)], True, ("plain", "z", q(1)))),       # control = target
              ("field", ("plain", "x", (1, 0)))]
    elif procname == "qc":
        D += [("basis", ("plain", "h", q(0))), ("basis", ("rot", "rx", 1, q(0))), ("basis", ("iswap", q(0), q(1))),
              ("basis", ("ctrl", [q(0)], True, ("plain", "z", q(1)))), ("basis", ("delay", 3, [q(0)])),
              ("qubits", ("plain", "x", q(1))), ("qubits", ("rot", "rz", 2, q(2))), ("qubits", ("plain", "sx", q(4))),
              ("params", ("raw", "rz", [q(0)], [1, 2])), ("params", ("raw", "id", [q(0)], [0])),
              ("range", ("measure", [q(3)], [])), ("range", ("measure", [q(0), q(-2)], [])),
              ("crash", ("noqasm", "rxx", [q(0), q(1)], 2)), ("crash", ("measure", [], [])),
              ("field", ("plain", "x", (1, 0)))]
    elif procname == "custom1":
        D += [("notconfigured", ("plain", "h", q(0))),
              ("qubits", ("plain", "x", q(2))),      # only the first 'x' entry counts
              ("qubits", ("ctrl", [q(1)], True, ("plain", "x", q(0)))),
              ("coupling", ("ctrl", [q(0)], True, ("plain", "x", q(2)))), ("coupling", ("ctrl", [q(3)], True, ("plain", "x", q(1)))),
              ("coupling", ("ctrl", [q(0), q(1)], True, ("plain", "x", q(2)))), ("coupling", ("iswap", q(3), q(0))),
              ("coupling", ("ctrl", [q(2), q(1)], True, ("plain", "x", q(0)))), ("coupling", ("ctrl", [q(1), q(2)], True, ("plain", "x", q(3)))),
              ("params", ("raw", "cx", [q(0), q(1)], [1])), ("basis", ("plain", "y", q(0))),
              ("qubits", ("ctrl", [q(0), q(0)], True, ("plain", "x", q(2)))),      # the same control twice
              ("coupling", ("ctrl", [q(0), (1, 1)], True, ("plain", "x", q(2)))),  # controls in two fields, tuple [0,1,2] configured
              ("range", ("measure", [q(4)], [])), ("ctrlstate", ("ctrl", [q(0)], False, ("plain", "x", q(1)))),
              ("ctrlstate", ("ctrl", [q(1), q(2)], False, ("plain", "x", q(3))))]
    elif procname == "custom2":
        D += [("qubits", ("ctrl", [q(1)], True, ("plain", "z", q(0)))), ("qubits", ("u3", 1, 2, 3, q(2))),
              ("params", ("rot", "ry", 3, q(0))), ("params", ("raw", "u3", [q(0)], [1, 2])),
              ("range", ("plain", "x", q(2))),        # configured tuple outside the (smaller) device
              ("range", ("ctrl", [q(1)], True, ("plain", "z", q(2)))), ("range", ("measure", [q(2)], [])),
              ("ctrlstate", ("ctrl", [q(0)], False, ("plain", "z", q(1))))]
    return D


def base_circuits(procname, rng, n):
    one, two, meas = valid_pool(procname)
    out = []
    for _ in range(n):
        L = rng.randint(1, 5)
        c = [rng.choice(one + two + two) if (one + two) else rng.choice(one) for _i in range(L)]
        if rng.random() < 0.85:
            c.append(rng.choice(meas))
        if rng.random() < 0.25:
            c.insert(rng.randint(0, len(c)), rng.choice(meas))
        out.append(c)
    return out


DEFAULT_OPT = {"shots": 1024, "init_qubits": True, "do_emulation": False, "optional": {}}

OPT_VALUES = {"acquisition_mode": ["", "a"], "acquisition_type": [None, "t"], "averaging_mode": ["m"], "chip": ["", "dedicated"],
              "debug": [False, True], "default_qubits": [[], ["q0"]], "fridge": ["f"], "log_file_level": ["info"],
              "log_level": ["", "debug"], "log_level_std": ["w"], "loops": [{}, {"a": 1}], "meas_return": ["avg"],
              "n_calibration_points": [0, 3], "name_suffix": ["_x"], "parameter_binds": [[], [{"a": 1}]],
              "parametric_pulses": [["p"]], "reference_measurement": [{}, {"r": 1}], "relax": [False, True],
              "relax_time": [0, 5], "sequence_settings": [{"s": 1}], "store_nt_result": [False, True],
              "trigger_time": [0.0, 1.5], "weighting_amp": [0.0, 0.5]}


def run(ctx):
    import backend as gen_backend
    ctx.trusted.append(
        "C18: the validation loop, the per-instruction as_qasm views (incl. the OpenQASM gate names), the Qobj header "
        "assembly (Circuit.particles/clbits, sorting, set semantics) and the key conversion are hand-modelled "
        "(Qib.Backend.QobjModel) and tied by exact correspondence; the shots condition, which instructions the final range "
        "check reads, the range condition, check_params, the ctrl_state guard and the shape of the loop, of "
        "WMIExperiment.as_qasm, get_counts, Circuit.particles/clbits/as_qasm, __init__ and submit_experiment are re-read from "
        "the source; the configuration records are obtained by running configuration(). Gate parameters are opaque tokens. "
        "int(key, 16) / bin() / str.zfill / dict comprehension are modelled as digit-list functions (Python built-ins trusted).")
    ctx.assumes.append("count keys are '0x' + hexadecimal digits (non-negative); options are plain Python values; "
                       "'shots within the limit' is the upper bound shots <= max_shots (non-positive shots are accepted by the code: recorded in notes/C18.md)")
    ctx.rules.append("valid base circuits per processor (WMIQSim, WMIQC + two custom configurations exercising the coupling map, "
                     "missing gate properties, duplicate entries, a device smaller than its tuples) with exactly one defective "
                     "instruction of each kind (not a basis gate / unconfigured tuple / wrong parameter count / not coupled / "
                     "index outside the processor / no OpenQASM form / non-standard control state / foreign field) inserted at "
                     "EVERY position and substituted at every position; shots grid x option grid; empty circuit; random "
                     "multi-defect circuits; count dictionaries with all widths 0..6, leading zeros, top bit set. "
                     "non-trivial = circuit with >= 2 instructions, or a dictionary with >= 2 keys")
    ctx.lib(["Backend/QobjCheck", "Backend/QobjProofs"])
    ok = ctx.translate("GenQobj", gen_backend.generate_qobj)
    if ok:
        ctx.props()
    else:
        ctx.oblige("props:C18", "theorem", False, "not compiled: translator failed")
    ctx.log("library, translator, theorems done")
    setup()
    global HEADER
    HEADER = (HEADER_GEN if ok else header_doc()) + custom_defs()
    rng = ctx.rng
    cases, seen = [], set()

    def one(procname, spec, o, tag):
        key = repr((procname, spec, sorted(o.items(), key=repr)))
        if key in seen:
            return None
        seen.add(key)
        desc = {"kind": "submit", "proc": procname, "circuit": spec, "options": o}
        try:
            verdict, nreq, exp, rec = submit(procname, spec, o)
        except Exception as ex:
            ctx.fail("validate:harness-crash", desc, "a verdict", "%s: %s" % (type(ex).__name__, ex))
            return None
        ctx.count(tag)
        ctx.count("verdict_" + verdict.split(":")[0])
        v = verdict if not verdict.startswith("OTHER") else "CMinEmpty"
        cases.append(("CSubmit %s %s %s %s %s" % (t_proc(procname), zl(o["shots"]), t_circ(spec), v, ct.nat(nreq)), desc))
        if len(spec) >= 2:
            ctx.nontriv(key)
        if exp is not None:
            c = canon_qobj(exp.as_qasm(), o)
            cases.append(("CQobj %s %s (Some %s)" % (t_options(o), t_circ(spec), t_qobj(c)),
                          dict(desc, kind="qobj")))
        oracle_submit(ctx, desc, procname, spec, o, verdict, nreq, exp, rec)
        if exp is not None:
            history_qobj(ctx, desc, exp, rec.calls[0][1]["qobj"] if rec.calls else None, probe=(tag == "probe"))
        if len(spec) >= 4 and verdict != "Accept":
            ctx.sample({"proc": procname, "circuit": spec, "shots": o["shots"], "verdict": verdict})
        return verdict

    q = lambda i: (0, i)
    # -- probe input of the two aliasing findings (always run, first): decides whether this tree has them
    one("qsim", [("plain", "h", q(0)), ("rot", "rz", 90, q(1)), ("measure", [q(0), q(1)], [])], DEFAULT_OPT, "probe")
    # -- the documented failing inputs of the unrepaired code, always run
    one("qsim", [("measure", [q(5)], []), ("plain", "x", q(0))], DEFAULT_OPT, "defect_input")
    one("qsim", [], DEFAULT_OPT, "defect_input")
    one("qc", [], DEFAULT_OPT, "defect_input")
    one("qsim", [("ctrl", [q(0)], False, ("plain", "z", q(1))), ("measure", [q(0), q(1)], [])], DEFAULT_OPT, "defect_input")
    # -- the test-suite's circuits
    one("qsim", [("plain", "h", q(0)), ("plain", "h", q(1)), ("ctrl", [q(0)], True, ("plain", "z", q(1))),
                 ("measure", [q(0), q(1), q(2)], [])], dict(DEFAULT_OPT, optional={"chip": "dedicatedSimulator"}), "testsuite")
    one("qc", [("rot", "rz", 90, q(0)), ("measure", [q(0)], [])], dict(DEFAULT_OPT, optional={"chip": "dedicated"}), "testsuite")

    # -- one defect of each kind at every position
    nbase = {"qsim": 80, "qc": 40, "custom1": 40, "custom2": 25} if ctx.thorough else {"qsim": 3, "qc": 2, "custom1": 2, "custom2": 2}
    for procname in ("qsim", "qc", "custom1", "custom2"):
        bases = base_circuits(procname, rng, nbase[procname])
        D = defects(procname)
        dopt = dict(DEFAULT_OPT, shots=min(1024, ENV["procs"][procname].configuration().max_shots))
        for base in bases:
            if one(procname, base, dopt, "base_valid") not in ("Accept", None):
                ctx.count("base_not_accepted")
                ctx.fail("validate:valid-circuit-refused", {"kind": "submit", "proc": procname, "circuit": base, "options": dopt},
                         "accepted", "refused")
            for kind, bad_ins in D:
                for pos in range(len(base) + 1):
                    one(procname, base[:pos] + [bad_ins] + base[pos:], dopt, "insert_%s" % kind)
                for pos in range(len(base)):
                    one(procname, base[:pos] + [bad_ins] + base[pos + 1:], dopt, "replace_%s" % kind)
            one(procname, [], dopt, "empty")
        # defective instruction alone
        for kind, bad_ins in D:
            one(procname, [bad_ins], dopt, "alone_%s" % kind)

    # -- shots grid x option grid
    for procname in ("qsim", "qc", "custom2"):
        mx = ENV["procs"][procname].configuration().max_shots
        base = base_circuits(procname, rng, 1)[0]
        badc = base[:1] + [defects(procname)[0][1]] + base[1:]
        for shots in (-5, 0, 1, 16, mx - 1, mx, mx + 1, 2 ** 20):
            for iq in (True, False):
                for emu in (False, True):
                    o = {"shots": shots, "init_qubits": iq, "do_emulation": emu, "optional": {}}
                    one(procname, base, o, "shots_grid")
                    if iq and not emu:
                        one(procname, badc, o, "shots_grid_defect")
        for k in OPT_KEYS:
            for val in OPT_VALUES[k]:
                one(procname, base, dict(DEFAULT_OPT, optional={k: val}), "option_grid")
        for _ in range(40 if ctx.thorough else 10):
            opt = {k: rng.choice(OPT_VALUES[k]) for k in OPT_KEYS if rng.random() < 0.4}
            one(procname, base, {"shots": rng.choice([1, 7, 1024]), "init_qubits": rng.random() < 0.5,
                                 "do_emulation": rng.random() < 0.5, "optional": opt}, "option_random")

    # -- random circuits with any number of defects, two fields
    for _ in range(20000 if ctx.thorough else 300):
        procname = rng.choice(["qsim", "qsim", "qc", "custom1", "custom2"])
        one_, two_, meas_ = valid_pool(procname)
        pool = one_ + two_ + meas_
        D = [d for _, d in defects(procname)]
        spec = []
        for _i in range(rng.randint(0, 7)):
            ins = rng.choice(D) if rng.random() < 0.2 else rng.choice(pool)
            if rng.random() < 0.06 and ins[0] == "plain":
                ins = ("plain", ins[1], (1, ins[2][1]))
            spec.append(ins)
        one(procname, spec, dict(DEFAULT_OPT, shots=rng.choice([1, 1, 5, 5, 7, 8, 100, 101, 8196, 8197, 65536])), "random")

    # -- recorded, not claimed (outside "all circuits x processors x option settings": the experiment keeps references to
    #    the caller's circuit and options, which stay mutable): what as_qasm() shows after the caller changed them
    try:
        import copy as _copy
        m = build(("measure", [q(0), q(1)], []))
        circ = ENV["qib"].Circuit([build(("plain", "x", q(0))), m])
        rec = Recorder()
        import requests as _rq
        saved = _rq.put
        _rq.put = rec.put
        try:
            opt = mk_options(DEFAULT_OPT)
            exp = ENV["procs"]["qsim"].submit_experiment("C18", circ, opt)
        finally:
            _rq.put = saved
        m.on([qubit(q(0))])                 # public API of the instruction object the circuit holds
        opt.shots = 2 ** 30
        qo_ = exp.as_qasm()
        cq = canon_qobj(qo_, DEFAULT_OPT)
        used = {i for d in cq["ins"] for i in d["qubits"]}
        if not used <= set(cq["ql"]):
            ctx.count("recorded_header_follows_the_live_circuit_but_instructions_are_a_snapshot")
        if cq["shots"] != DEFAULT_OPT["shots"]:
            ctx.count("recorded_qobj_follows_options_changed_after_submission")
    except Exception as ex:
        ctx.count("recorded_history_probe_failed_" + type(ex).__name__)

    # -- submission histories on one circuit object
    histories(ctx)
    ctx.log("histories done")

    # -- single instructions: as_qasm
    singles = []
    for procname in ("qsim", "qc", "custom1", "custom2"):
        one_, two_, meas_ = valid_pool(procname)
        singles += one_ + two_ + meas_ + [d for _, d in defects(procname)]
    singles += [("plain", k, (f, i)) for k in PLAIN for f in (0, 1) for i in (0, 2)]
    singles += [("ctrl", [q(2)], std, inner) for std in (True, False)
                for inner in [("plain", k, q(0)) for k in PLAIN] + [("rot", k, 7, q(1)) for k in ROT]
                + [("u3", 1, 2, 3, q(1)), ("iswap", q(0), q(1)), ("noqasm", "rxx", [q(0), q(1)], 1)]]
    singles += [("ctrl", [q(2), q(1)], std, ("plain", k, q(0))) for std in (True, False) for k in ("x", "z")]
    singles += [("ctrl", [q(2), q(1)], True, ("rot", "rz", 3, q(0))), ("ctrl", [q(0), (1, 0)], True, ("plain", "x", (1, 2))),
                ("ctrl", [q(3), q(2), q(1), q(0)], False, ("plain", "z", (1, 0))), ("iswap", q(0), (1, 0)),
                ("measure", [q(1), q(1), q(0)], []), ("measure", [q(0), q(1)], [2, 2]), ("delay", -1, [q(1), q(1)])]
    singles += [("ctrl", [q(3), q(2), q(1)], True, ("plain", "x", q(0))), ("delay", 0, []), ("barrier", [q(2), q(0)]),
                ("measure", [q(2), q(0)], [0, 2]), ("measure", [q(1), (1, 1)], [])]
    sseen = set()
    for ins in singles:
        if repr(ins) in sseen:
            continue
        sseen.add(repr(ins))
        desc = {"kind": "as_qasm", "instruction": ins}
        g = build(ins)
        try:
            d = g.as_qasm()
            if "params" in d:
                d = dict(d, params=[int(p) for p in d["params"]])
            res = "(QOk %s)" % t_qasm(d)
            ctx.count("as_qasm_ok")
            v = oracle_view(ins)
            if ins[0] == "ctrl" and not ins[2]:
                ctx.fail("as_qasm:nonstandard-control-state-named-as-standard-gate", desc,
                         "no OpenQASM form (NotImplementedError)", d)
            elif v is not None and (d["name"], d["qubits"]) != (v[0], v[1]):
                ctx.fail("as_qasm:wrong-name-or-qubits", desc, v, d)
            if d["qubits"] != [p.index for p in g.particles()]:
                ctx.fail("as_qasm:qubits-are-not-the-instructions-own", desc, [p.index for p in g.particles()], d["qubits"])
        except Exception as ex:
            res = {"NotImplementedError": "(QErr ENotImpl)", "AttributeError": "(QErr EAttr)",
                   "TypeError": "(QErr EType)"}.get(type(ex).__name__)
            ctx.count("as_qasm_" + type(ex).__name__)
            if res is None:
                ctx.fail("as_qasm:unexpected-exception", desc, "dict or NotImplementedError", repr(ex))
                continue
        cases.append(("CQasm1 (%s) %s" % (t_gate(ins), res), desc))

    ctx.log("implementation ran on %d validation/Qobj cases" % len(cases))
    dis = ctx.cases("qobj", HEADER, cases, fn="bad", shard=200)
    ctx.log("model evaluated")
    for i, d in dis[:5]:
        ctx.log("model/impl disagree on", d)
        ctx.fail("validate:model-disagrees", d, "verdict / Qobj of the Coq model", "implementation differs (see case)")

    # -- count dictionaries
    ccases = counts_cases(ctx)
    dis = ctx.cases("counts", HEADER, ccases, fn="bad", shard=250)
    for i, d in dis[:5]:
        ctx.log("model/impl disagree on", d)
        ctx.fail("counts:model-disagrees", d, "dictionary of the Coq model", "implementation differs (see case)")


HEX = "0123456789abcdef"


def counts_one(nq, keys):
    """keys: list of (digits, upper?, count). -> implementation's binary dictionary as list of pairs"""
    from qib.backend.wmi import WMIExperimentResults
    qib = ENV["qib"]

    class Ref:
        pass
    ref = Ref()
    ref.circuit = qib.Circuit([qib.MeasureInstruction([qubit((0, i)) for i in range(nq)])] if nq else [])
    res = WMIExperimentResults(ref)
    counts = {}
    for ds, upper, cnt in keys:
        s = "".join(HEX[d] for d in ds)
        counts["0x" + (s.upper() if upper else s)] = cnt
    import copy
    res.from_json({"runtime": 1, "counts": [copy.deepcopy(counts)]})
    plain = copy.deepcopy(res.get_counts())
    out = res.get_counts(binary=True)
    if list(res.get_counts(binary=True).items()) != list(out.items()) or res.get_counts() != plain:
        out = {"not repeatable": -1}
    LAST_RES[:] = [res]
    return counts, plain, list(out.items())


LAST_RES = []


def oracle_counts(ctx, desc, nq, keys, counts, plain, out):
    if plain != counts:
        ctx.fail("counts:hex-dictionary-changed", desc, counts, plain)
    vals = [sum(d * 16 ** (len(ds) - 1 - i) for i, d in enumerate(ds)) for ds, _, _ in keys]
    if len(set(vals)) == len(vals):
        want = [(format(v, "b").zfill(nq), c) for v, (_, _, c) in zip(vals, keys)]
        if out != want:
            ctx.fail("counts:binary-keys-wrong", desc, want, out)


def counts_cases(ctx):
    rng = ctx.rng
    cc, seen = [], set()

    def add(nq, keys, tag):
        if len({tuple(k[0]) for k in keys}) != len(keys):
            return
        desc = {"kind": "counts", "n_qubits": nq, "keys": [list(k) for k in keys]}
        if repr(desc) in seen:
            return
        seen.add(repr(desc))
        counts, plain, out = counts_one(nq, keys)
        ctx.count(tag)
        kvs = ct.lst(["(%s, %s)" % (t_zs(ds), zl(c)) for ds, _, c in keys])
        res = ct.lst(["(%s, %s)" % (ct.lst([ct.b(ch == "1") for ch in k]), zl(v)) for k, v in out])
        if any(set(k) - {"0", "1"} for k, _ in out):
            ctx.fail("counts:non-binary-key", desc, "0/1 string", [k for k, _ in out])
        cc.append(("CCounts %s %s %s" % (ct.nat(nq), kvs, res), desc))
        if len(keys) >= 2:
            ctx.nontriv(repr(desc))
        oracle_counts(ctx, desc, nq, keys, counts, plain, out)
        history_counts(ctx, desc, LAST_RES[0], counts, out, probe=(tag == "probe"))

    add(2, [([1], False, 5), ([2], False, 0), ([3], False, 7)], "probe")
    # exhaustive: every value 0..2^6-1 as one or two hex digits, every width 0..6; counts include 0
    for nq in range(0, 7):
        for v in range(0, 64):
            add(nq, [([v // 16, v % 16], False, v % 3)], "counts_single")
            if v < 16:
                add(nq, [([v], True, 3)], "counts_single")
        # the full dictionary of an nq-qubit register
        add(nq, [([v // 16, v % 16] if v >= 16 else [v], False, (100 + v) * (v % 2)) for v in range(2 ** min(nq, 5))], "counts_full")
    # leading zeros, long keys, equal numbers under different spellings (dict collision), upper case
    add(3, [([0, 3], False, 5), ([3], False, 9)], "counts_collision")
    add(2, [([0, 0, 1], False, 5), ([2], True, 9), ([0, 1], False, 4)], "counts_collision")
    for _ in range(1500 if ctx.thorough else 200):
        nq = rng.randint(0, 9)
        keys = []
        for _i in range(rng.randint(1, 6)):
            L = rng.randint(1, 3)
            ds = [rng.randint(0, 15) for _j in range(L)]
            if rng.random() < 0.3:
                ds = [0] + ds
            if rng.random() < 0.3:      # top bit of the register set
                ds = [8 if rng.random() < 0.5 else 15] + ds[1:]
            keys.append((ds, rng.random() < 0.3, rng.choice([0, 0, 1, rng.randint(0, 5000), rng.randint(0, 5000)])))
        add(nq, keys, "counts_random")
    return cc


def replay(ctx, data):
    inp, sig = data["input"], data["sig"]
    setup()

    def fix(ins):
        """JSON lists -> the tuple form of a spec instruction"""
        ins = list(ins)
        k = ins[0]
        tq = lambda q: tuple(q)
        if k == "plain":
            return ("plain", ins[1], tq(ins[2]))
        if k == "rot":
            return ("rot", ins[1], ins[2], tq(ins[3]))
        if k == "u3":
            return ("u3", ins[1], ins[2], ins[3], tq(ins[4]))
        if k == "iswap":
            return ("iswap", tq(ins[1]), tq(ins[2]))
        if k == "noqasm":
            return ("noqasm", ins[1], [tq(q) for q in ins[2]], ins[3])
        if k == "raw":
            return ("raw", ins[1], [tq(q) for q in ins[2]], ins[3])
        if k == "ctrl":
            return ("ctrl", [tq(q) for q in ins[1]], ins[2], fix(ins[3]))
        if k == "measure":
            return ("measure", [tq(q) for q in ins[1]], list(ins[2]))
        if k == "barrier":
            return ("barrier", [tq(q) for q in ins[1]])
        if k == "delay":
            return ("delay", ins[1], [tq(q) for q in ins[2]])
        raise AssertionError(ins)

    kind = inp.get("kind")
    terms = []
    if kind == "history":
        run_history(ctx, inp)
    elif kind in ("submit", "qobj"):
        spec = [fix(i) for i in inp["circuit"]]
        o = inp["options"]
        verdict, nreq, exp, rec = submit(inp["proc"], spec, o)
        oracle_submit(ctx, inp, inp["proc"], spec, o, verdict, nreq, exp, rec)
        v = verdict if not verdict.startswith("OTHER") else "CMinEmpty"
        terms.append(("CSubmit %s %s %s %s %s" % (t_proc(inp["proc"]), zl(o["shots"]), t_circ(spec), v, ct.nat(nreq)), inp))
        if exp is not None:
            terms.append(("CQobj %s %s (Some %s)" % (t_options(o), t_circ(spec), t_qobj(canon_qobj(exp.as_qasm(), o))), inp))
        if exp is not None and sig.startswith("history:"):      # last: it may leave the experiment object modified
            history_qobj(ctx, inp, exp, rec.calls[0][1]["qobj"] if rec.calls else None, probe=not sig.endswith(":regression"))
            for f in ctx.failing:
                if f["sig"] == sig.replace(":regression", ""):
                    f["sig"] = sig
    elif kind == "as_qasm":
        ins = fix(inp["instruction"])
        g = build(ins)
        try:
            d = g.as_qasm()
            if ins[0] == "ctrl" and not ins[2]:
                ctx.fail(sig, inp, "no OpenQASM form", d)
            if "params" in d:
                d = dict(d, params=[int(p) for p in d["params"]])
            terms.append(("CQasm1 (%s) (QOk %s)" % (t_gate(ins), t_qasm(d)), inp))
        except Exception as ex:
            r = {"NotImplementedError": "(QErr ENotImpl)", "AttributeError": "(QErr EAttr)", "TypeError": "(QErr EType)"}.get(type(ex).__name__)
            if r:
                terms.append(("CQasm1 (%s) %s" % (t_gate(ins), r), inp))
    elif kind == "counts":
        keys = [(list(k[0]), bool(k[1]), k[2]) for k in inp["keys"]]
        counts, plain, out = counts_one(inp["n_qubits"], keys)
        oracle_counts(ctx, inp, inp["n_qubits"], keys, counts, plain, out)
        if sig.startswith("history:"):
            history_counts(ctx, inp, LAST_RES[0], counts, out, probe=not sig.endswith(":regression"))
            for f in ctx.failing:
                if f["sig"] == sig.replace(":regression", ""):
                    f["sig"] = sig
        kvs = ct.lst(["(%s, %s)" % (t_zs(ds), zl(c)) for ds, _, c in keys])
        res = ct.lst(["(%s, %s)" % (ct.lst([ct.b(ch == "1") for ch in k]), zl(v)) for k, v in out])
        terms.append(("CCounts %s %s %s" % (ct.nat(inp["n_qubits"]), kvs, res), inp))
    if sig.endswith("model-disagrees") and not ctx.failing and terms:
        import backend as gen_backend
        global HEADER
        ctx.lib(["Backend/QobjCheck"])
        HEADER = (HEADER_GEN if ctx.translate("GenQobj", gen_backend.generate_qobj) else header_doc()) + custom_defs()
        if ctx.cases("replay", HEADER, terms, fn="bad"):
            ctx.fail(sig, inp, "result of the Coq model", "implementation differs")
    same = [f for f in ctx.failing if f["sig"] == sig]
    if same:
        ctx.failing[:] = same
