"""C05 clauses (d),(e): exact correspondence of Circuit.as_tensornet / TensorNetworkSimulator with the
model of coq/theories/Embed/CircNet.v (theorems in coq/props/C05n.v)."""
import os
import numpy as np
from vlib.core import COQ

KNOWN_WRAP = ("RxxGate", "RyyGate", "RzzGate", "ISwapGate")


def rand_circuit(rng, qib, nw):
    field = qib.field.Field(qib.field.ParticleType.QUBIT, qib.lattice.IntegerLattice((nw,), pbc=False))
    q = [qib.field.Qubit(field, i) for i in range(nw)]
    gates, desc = [], []
    for _ in range(rng.randint(1, 5)):
        kind = rng.choice(["H", "X", "Rz", "Y", "CX", "CZ", "CCZ", "CtrlNeg", "Mux", "Phase", "Z"])
        ws = rng.sample(range(nw), min(nw, {"CX": 2, "CZ": 2, "CCZ": 3, "CtrlNeg": 2, "Mux": 2, "Phase": 2}.get(kind, 1)))
        if kind in ("CCZ",) and nw < 3:
            kind, ws = "CZ", rng.sample(range(nw), 2) if nw >= 2 else ws
        if len(ws) < {"CX": 2, "CZ": 2, "CtrlNeg": 2, "Mux": 2, "Phase": 2}.get(kind, 1):
            kind, ws = "H", ws[:1]
        if kind == "H":
            g = qib.HadamardGate(q[ws[0]])
        elif kind == "X":
            g = qib.PauliXGate(q[ws[0]])
        elif kind == "Y":
            g = qib.PauliYGate(q[ws[0]])
        elif kind == "Z":
            g = qib.PauliZGate(q[ws[0]])
        elif kind == "Rz":
            g = qib.RzGate(rng.choice([0.5, -0.25, 1.75]), q[ws[0]])
        elif kind == "CX":
            g = qib.ControlledGate(qib.PauliXGate(q[ws[1]]), 1).set_control(q[ws[0]])
        elif kind == "CZ":
            g = qib.ControlledGate(qib.PauliZGate(q[ws[1]]), 1).set_control(q[ws[0]])
        elif kind == "CCZ":
            g = qib.ControlledGate(qib.PauliZGate(q[ws[2]]), 2, ctrl_state=[rng.randint(0, 1), rng.randint(0, 1)]).set_control(q[ws[0]], q[ws[1]])
        elif kind == "CtrlNeg":
            g = qib.ControlledGate(qib.HadamardGate(q[ws[1]]), 1, ctrl_state=[0]).set_control(q[ws[0]])
        elif kind == "Mux":
            g = qib.MultiplexedGate([qib.PauliXGate(q[ws[1]]), qib.HadamardGate(q[ws[1]])], 1).set_control(q[ws[0]])
        else:
            g = qib.PhaseFactorGate(0.375, 2).on(q[ws[0]], q[ws[1]])
        gates.append(g)
        desc.append((kind, ws))
    return qib.Circuit(gates), desc


def run(ctx):
    import qib
    import circnet
    ctx.lib(["Embed/CircNet", "Embed/CircNetCheck", "GateNet/GateNetProofs", "TN/TNEinsumPort"])
    ctx.props(os.path.join(COQ, "props", "C05n.v"))
    rng = ctx.rng
    cases = []
    for k in range(60 if ctx.thorough else 16):
        nw = rng.randint(1, 4)
        circ, desc = rand_circuit(rng, qib, nw)
        d = {"kind": "circnet", "nw": nw, "gates": desc}
        try:
            cs = circnet.cases_for(circ, nw, repr(desc))
        except Exception as e:   # the modelled loop shape is gone, or the implementation raises
            ctx.fail("circnet:as_tensornet-or-simulator-raises:" + type(e).__name__, d, "network built", repr(e)[:200])
            continue
        ctx.count("circnet_nw=%d" % nw)
        ctx.nontriv(d)
        cases += [(t, dict(d, what=w)) for t, w in cs]
        # independent oracle: network value = matrix, simulator = first column
        M = circ.as_matrix([circ.fields()[0]]).toarray() if circ.fields() else None
        if M is not None:
            tnet = circ.as_tensornet()
            T, am = tnet.contract_einsum()
            from qib.tensor_network.tensor_network import to_full_tensor
            full = np.reshape(to_full_tensor(T, am), (2 ** nw, 2 ** nw))
            if not np.allclose(full, M, atol=1e-12):
                ctx.fail("circnet:network-value-differs-from-circuit-matrix", d)
    ctx.cases("circnet", circnet.HEADER, cases)
