"""C20 - VQE energies are true expectation values of a unitary ansatz."""
import os, sys, itertools
import numpy as np
from vlib import coqterm as ct

sys.path.insert(0, os.path.join(os.path.dirname(os.path.dirname(os.path.abspath(__file__))), "gen"))

HEADER = "From Coq Require Import QArith.\nFrom Qib Require Import VQE.VqeCheck.\nFrom Run Require Import GenVqe.\n"
PH = [1, -1j, -1, 1j]
LET = {(0, 0): np.eye(2), (0, 1): np.array([[0, 1], [1, 0]]), (1, 1): np.array([[0, -1j], [1j, 0]]),
       (1, 0): np.array([[1, 0], [0, -1]])}
TOL = 1e-9


# ------------------------------------------------------------------------------ references (numpy only)
def ref_pauli(strings, n):
    """sum_k w_k (-i)^q_k kron letters, site 0 most significant (independent of the library)"""
    M = np.zeros((2 ** n, 2 ** n), dtype=complex)
    for z, x, q, w in strings:
        m = np.ones((1, 1), dtype=complex)
        for zi, xi in zip(z, x):
            m = np.kron(m, LET[(int(zi), int(xi))])
        M = M + complex(*w) * PH[q % 4] * m
    return M


def ref_ladder(L, p, create):
    """Jordan-Wigner a_p / a_p^dagger with the Z string on the sites AFTER p (qib's convention),
    site 0 most significant"""
    lower = np.array([[0, 1], [0, 0]], dtype=complex)       # |0><1|
    m = np.ones((1, 1), dtype=complex)
    for j in range(L):
        if j < p:
            f = np.eye(2)
        elif j == p:
            f = lower.T if create else lower
        else:
            f = np.diag([1.0, -1.0])
        m = np.kron(m, f)
    return m


def ref_cluster(L, kinds, params):
    """sum_idx params[idx] o_0(idx_0) ... o_{k-1}(idx_{k-1})"""
    k = len(kinds)
    par = np.reshape(np.asarray(params), k * (L,))
    T = np.zeros((2 ** L, 2 ** L), dtype=complex)
    for idx in itertools.product(range(L), repeat=k):
        if par[idx] == 0:
            continue
        m = np.eye(2 ** L, dtype=complex)
        for kind, p in zip(kinds, idx):
            m = m @ ref_ladder(L, p, kind)
        T = T + par[idx] * m
    return T


def ref_number(L):
    return np.diag([bin(i).count("1") for i in range(2 ** L)]).astype(complex)


KINDS = {"s": [[True, False]], "d": [[True, True, False, False]], "sd": [[True, False], [True, True, False, False]]}


def ref_qucc(L, exc, params):
    """the definition: product over the excitation classes of exp(T - T^dagger)"""
    from scipy.linalg import expm
    params = np.asarray(params, dtype=complex)          # complex cluster amplitudes are part of the definition (T - T^dagger)
    U = np.eye(2 ** L, dtype=complex)
    off = 0
    for kinds in KINDS[exc]:
        cnt = L ** len(kinds)
        T = ref_cluster(L, kinds, params[off:off + cnt])
        off += cnt
        U = U @ expm(T - T.conj().T)
    return U


# ------------------------------------------------------------------------------ building inputs
def mk_pauli_op(strings):
    from qib.operator.pauli_operator import PauliString, WeightedPauliString, PauliOperator
    return PauliOperator([WeightedPauliString(PauliString(list(z), list(x), q), complex(*w)) for z, x, q, w in strings])


def mk_field(L):
    import qib
    return qib.field.Field(qib.field.ParticleType.FERMION, qib.lattice.IntegerLattice((L,), pbc=False))


def lib_cluster(L, kinds, params):
    """the Jordan-Wigner matrix of the cluster operator, through the same public calls qUCC uses"""
    import qib
    from qib.operator import IFODesc, IFOType, FieldOperatorTerm, FieldOperator
    field = mk_field(L)
    k = len(kinds)
    T = FieldOperatorTerm([IFODesc(field, IFOType.FERMI_CREATE if c else IFOType.FERMI_ANNIHIL) for c in kinds],
                          np.reshape(np.asarray(params), k * (L,)))
    return qib.transform.jordan_wigner_encode_field_operator(FieldOperator([T])).as_matrix().toarray()


def cstate(v):
    return np.array([complex(a, b) for a, b in v])


# ------------------------------------------------------------------------------ oracles on the implementation
def oracle_expect(ctx, n, strings, state):
    """state: list of [re, im]; returns the implementation's value"""
    from qib.algorithms.vqe.vqe import measure_expectation_statevector
    inp = {"kind": "expect", "n": n, "strings": strings, "state": state}
    psi = cstate(state)
    op = mk_pauli_op(strings)
    val = complex(measure_expectation_statevector(op, psi))
    P = ref_pauli(strings, n)
    cplx = bool(np.abs(psi.imag).max() > 0)
    tag = " (complex state)" if cplx else " (real state)"
    ref = complex(np.vdot(psi, P @ psi))
    scale = max(1.0, abs(ref))
    if abs(val - ref) > TOL * scale:
        ctx.fail("expectation != psi^dagger P psi" + tag, inp, repr(ref), repr(val))
    herm = np.allclose(P, P.conj().T)
    if herm and abs(val.imag) > TOL * scale:
        ctx.fail("expectation not real for Hermitian P" + tag, inp, "imaginary part 0", repr(val))
    for u in (1j, -1, (3 + 4j) / 5):
        v2 = complex(measure_expectation_statevector(op, u * psi))
        if abs(v2 - val) > 1e-8 * scale:
            ctx.fail("expectation changes under a global phase of psi" + tag, dict(inp, phase=[u.real, u.imag]), repr(val), repr(v2))
            break
    if herm:
        w, V = np.linalg.eigh(P)
        nrm = np.vdot(psi, psi).real
        if nrm > 0:
            e = (val / nrm).real
            if e < w[0] - 1e-8 * scale or e > w[-1] + 1e-8 * scale:
                ctx.fail("expectation of normalised psi outside the spectral range of Hermitian P" + tag, inp,
                         [float(w[0]), float(w[-1])], repr(val / nrm))
        # eigenvector test (eigenvectors are complex in general)
        for k in (0, len(w) - 1):
            v = V[:, k] * np.exp(0.7j)
            ev = complex(measure_expectation_statevector(op, v))
            if abs(ev - w[k]) > 1e-8 * scale:
                ctx.fail("expectation on a normalised eigenvector != eigenvalue", dict(inp, eigen_index=k), float(w[k]), repr(ev))
                break
    return val, op


def oracle_qucc(ctx, L, exc, params):
    import qib
    inp = {"kind": "qucc", "L": L, "exc": exc, "params": [float(p) for p in params]}
    ans = qib.algorithms.vqe.ansatz.qUCC(mk_field(L), excitations=exc, embedding="jordan_wigner")
    U = ans.as_matrix(np.array(params, dtype=float)).toarray()
    d = 2 ** L
    dev = np.abs(U @ U.conj().T - np.eye(d)).max()
    if dev > 1e-8:
        ctx.fail("qUCC(%s): matrix not unitary" % exc, inp, "||U U^dag - 1|| = 0", "%.3g" % dev)
    N = ref_number(L)
    dev = np.abs(U @ N - N @ U).max()
    if dev > 1e-8:
        ctx.fail("qUCC(%s): does not commute with the particle number" % exc, inp, "[U, N] = 0", "%.3g" % dev)
    R = ref_qucc(L, exc, params)
    dev = np.abs(U - R).max()
    if dev > 1e-8:
        ctx.fail("qUCC(%s): matrix != prod exp(T - T^dagger) of the cluster operator" % exc, inp, None, "%.3g" % dev)
    return U


# ------------------------------------------------------------------------------ complex cluster amplitudes
# exp(T - T^dagger) is unitary for ANY complex amplitudes: (T - T^dagger) is anti-Hermitian because the adjoint CONJUGATES
# them.  Real amplitudes cannot tell a transpose from a conjugate transpose, so every excitation setting also gets complex
# parameter vectors in every container / dtype a caller may use.
CPARAM_KINDS = ["generic", "imaginary", "real-in-complex", "hermitian", "i-times-symmetric", "one-hot", "global-phase", "small-imaginary"]
CPARAM_FORMS = ["list", "array-complex128", "array-complex64", "list-mixed", "tuple", "array-object"]


def complex_params(rng, L, exc, kind):
    """[[re, im], ...] for the excitation setting: one block per excitation class"""
    parts = []
    for kinds in KINDS[exc]:
        k = len(kinds)
        shape = k * (L,)
        rnd = lambda: np.array([rng.uniform(-1, 1) for _ in range(L ** k)]).reshape(shape)
        rev = tuple(reversed(range(k)))
        if kind == "generic":
            a = rnd() + 1j * rnd()
        elif kind == "imaginary":
            a = 1j * rnd()
        elif kind == "real-in-complex":
            a = rnd() + 0j
        elif kind == "hermitian":                       # t_ij = conj(t_ji), t_ijkl = conj(t_lkji): T = T^dagger, U = 1
            m = rnd() + 1j * rnd()
            a = m + m.conj().transpose(rev)
        elif kind == "i-times-symmetric":               # T^dagger = -T: exponent 2T (a transpose without conjugate gives 0)
            m = rnd()
            a = 1j * (m + m.transpose(rev))
        elif kind == "one-hot":
            a = np.zeros(shape, dtype=complex)
            idx = tuple(rng.sample(range(L), 2)) * (k // 2) if L > 1 else (0,) * k
            a[idx] = complex(rng.uniform(-1, 1), rng.choice([1.0, -0.5, 0.75]))
        elif kind == "global-phase":
            a = rnd() * np.exp(1j * rng.uniform(0.3, 2.8))
        elif kind == "small-imaginary":
            a = rnd() + 1e-3j * rnd()
        else:
            raise KeyError(kind)
        parts.append(a.reshape(-1))
    return [[float(v.real), float(v.imag)] for v in np.concatenate(parts)]


def complex_container(cp, form):
    v = [complex(a, b) for a, b in cp]
    if form == "list":
        return v
    if form == "tuple":
        return tuple(v)
    if form == "list-mixed":                            # Python floats where the imaginary part is zero
        return [c.real if c.imag == 0 else c for c in v]
    if form == "array-complex128":
        return np.array(v, dtype=np.complex128)
    if form == "array-complex64":
        return np.array(v, dtype=np.complex64)
    if form == "array-object":
        return np.array(v, dtype=object)
    raise KeyError(form)


def oracle_qucc_complex(ctx, L, exc, cp, form, pkind=""):
    """qUCC.as_matrix for complex amplitudes: unitary, commutes with N, equals prod exp(T - T^dagger) of the independently built
    cluster operator; the energy of the state U psi0 is real and inside the spectral range of the particle sector"""
    import qib
    from qib.algorithms.vqe.vqe import measure_expectation_statevector
    inp = {"kind": "qucc-complex", "L": L, "exc": exc, "params": cp, "as": form, "param_kind": pkind}
    tag = "qUCC(%s), complex amplitudes" % exc
    ans = qib.algorithms.vqe.ansatz.qUCC(mk_field(L), excitations=exc, embedding="jordan_wigner")
    try:
        U = ans.as_matrix(complex_container(cp, form))
        U = U.toarray() if hasattr(U, "toarray") else np.asarray(U)
        U = np.asarray(U, dtype=complex)
    except Exception as e:
        if form == "array-object":                      # an exotic container may be refused: no matrix, no claim
            ctx.count("qucc_complex_refused_" + form)
            return None
        ctx.fail("%s: as_matrix raises" % tag, inp, "a matrix", repr(e)[:200])
        return None
    tol = 2e-5 if form == "array-complex64" else 1e-8   # single-precision amplitudes: single-precision values, exact structure
    cref = cp
    if form == "array-complex64":
        c64 = np.array([complex(a, b) for a, b in cp], dtype=np.complex64)
        cref = [[float(v.real), float(v.imag)] for v in c64]
    d = 2 ** L
    dev = np.abs(U @ U.conj().T - np.eye(d)).max()
    if not dev <= tol:
        ctx.fail("%s: matrix not unitary" % tag, inp, "||U U^dag - 1|| = 0", "%.3g" % dev)
    N = ref_number(L)
    dev = np.abs(U @ N - N @ U).max()
    if not dev <= tol:
        ctx.fail("%s: does not commute with the particle number" % tag, inp, "[U, N] = 0", "%.3g" % dev)
    R = ref_qucc(L, exc, [complex(a, b) for a, b in cref])
    dev = np.abs(U - R).max()
    if not dev <= tol:
        ctx.fail("%s: matrix != prod exp(T - T^dagger) of the cluster operator" % tag, inp, None, "%.3g" % dev)
    if all(b == 0 for _, b in cp):
        Ur = ans.as_matrix(np.array([a for a, _ in cp], dtype=float)).toarray()
        dev = np.abs(U - Ur).max()
        if not dev <= tol:
            ctx.fail("%s: real amplitudes handed over in a complex type give another matrix" % tag, inp, "same matrix", "%.3g" % dev)
    # energies of ansatz states (as VQE's energy function forms them)
    ham = qib.operator.FermiHubbardHamiltonian(mk_field(L), -1., 2., False)
    pauli_ham = qib.transform.jordan_wigner_encode_field_operator(ham.as_field_operator())
    H = pauli_ham.as_matrix().toarray()
    for nocc in range(L + 1):
        idx = [i for i in range(d) if bin(i).count("1") == nocc]
        w = np.linalg.eigvalsh(H[np.ix_(idx, idx)])
        init = np.zeros(d, dtype=complex)
        init[idx] = [np.exp(0.4j * j) for j in range(len(idx))]
        init /= np.linalg.norm(init)
        e = complex(measure_expectation_statevector(pauli_ham, U @ init))
        if abs(e.imag) > max(tol, 1e-8) or e.real < w[0] - 10 * tol or e.real > w[-1] + 10 * tol:
            ctx.fail("%s: energy of the ansatz state not real or outside the spectral range of the particle sector" % tag,
                     dict(inp, nocc=nocc), [float(w[0]), float(w[-1])], repr(e))
            break
    return U


def sector_min(H, L, nocc):
    idx = [i for i in range(2 ** L) if bin(i).count("1") == nocc]
    return float(np.linalg.eigvalsh(H[np.ix_(idx, idx)])[0])


def oracle_vqe(ctx, L, nocc, x0, exc="s", maxiter=120, phase=0.0):
    """optimiser energies never undercut the lowest eigenvalue in the particle sector (a test)"""
    import qib
    import qib.algorithms.vqe.vqe as vmod
    inp = {"kind": "vqe", "L": L, "nocc": nocc, "x0": [float(v) for v in x0], "exc": exc, "phase": phase}
    field = mk_field(L)
    ham = qib.operator.FermiHubbardHamiltonian(field, -1., 2., False)
    pauli_ham = qib.transform.jordan_wigner_encode_field_operator(ham.as_field_operator())
    H = pauli_ham.as_matrix().toarray()
    state = np.array([1.0])
    for j in range(L):        # first nocc sites occupied, site 0 most significant
        state = np.kron(state, np.array([0., 1.]) if j < nocc else np.array([1., 0.]))
    if phase:
        state = np.exp(1j * phase) * state          # a complex initial state (same ray)
    emin = sector_min(H, L, nocc)
    log = []
    orig = vmod.measure_expectation_statevector

    def logged(op, st):
        v = orig(op, st)
        log.append(complex(v))
        return v
    vmod.measure_expectation_statevector = logged
    try:
        opt = qib.algorithms.vqe.Optimizer(x0=np.array(x0, dtype=float), method="COBYLA", tol=1e-3, options={"maxiter": maxiter})
        ans = qib.algorithms.vqe.ansatz.qUCC(field, excitations=exc, embedding="jordan_wigner")
        solv = qib.algorithms.vqe.VQE(ansatz=ans, optimizer=opt, initial_state=state, measure_method="statevector")
        res = solv.run(pauli_ham)
    finally:
        vmod.measure_expectation_statevector = orig
    energies = log + [complex(res.fun)]
    lo = min(e.real for e in energies)
    if lo < emin - 1e-8:
        ctx.fail("VQE: an energy reported during optimisation undercuts the lowest eigenvalue of the particle sector", inp, emin, lo)
    if max(abs(e.imag) for e in energies) > 1e-8:
        ctx.fail("VQE: energy of a Hermitian Hamiltonian not real", inp)
    return emin, lo, len(energies)


def oracle_landscape(ctx, L, nocc, exc, params, amps):
    """energy_func of VQE.run evaluated directly (no optimiser): for ANY parameter vector and any complex initial
    state inside the nocc-particle sector, the energy is real and lies in the spectral range of the sector"""
    import qib
    from qib.algorithms.vqe.vqe import measure_expectation_statevector
    inp = {"kind": "landscape", "L": L, "nocc": nocc, "exc": exc, "params": [float(p) for p in params], "amps": amps}
    field = mk_field(L)
    ham = qib.operator.FermiHubbardHamiltonian(field, -1., 2., False)
    pauli_ham = qib.transform.jordan_wigner_encode_field_operator(ham.as_field_operator())
    H = pauli_ham.as_matrix().toarray()
    idx = [i for i in range(2 ** L) if bin(i).count("1") == nocc]
    w = np.linalg.eigvalsh(H[np.ix_(idx, idx)])
    init = np.zeros(2 ** L, dtype=complex)
    for i, a in zip(idx, amps):
        init[i] = complex(*a)
    init = init / np.linalg.norm(init)
    ans = qib.algorithms.vqe.ansatz.qUCC(field, excitations=exc, embedding="jordan_wigner")
    state = ans.as_matrix(np.array(params, dtype=float)).toarray() @ init          # as in VQE.run.energy_func
    e = complex(measure_expectation_statevector(pauli_ham, state))
    if abs(e.imag) > 1e-8:
        ctx.fail("VQE: energy of a Hermitian Hamiltonian not real", inp, "imaginary part 0", repr(e))
    if e.real < w[0] - 1e-8:
        ctx.fail("VQE: an energy of the ansatz state undercuts the lowest eigenvalue of the particle sector", inp, float(w[0]), e.real)
    if e.real > w[-1] + 1e-8:
        ctx.fail("VQE: an energy of the ansatz state exceeds the highest eigenvalue of the particle sector", inp, float(w[-1]), e.real)
    leak = np.linalg.norm(np.delete(state, idx))
    if leak > 1e-8:
        ctx.fail("VQE: the ansatz state leaves the particle sector of the initial state", inp, 0.0, float(leak))
    return e.real, float(w[0]), float(w[-1])


# ------------------------------------------------------------------------------ histories (object lifetimes)
# One VQE / PauliOperator / qUCC object used several times with its inputs replaced or CHANGED IN PLACE in between.
# The harness keeps a shadow of the inputs (operator as a list of weighted strings, initial state, ansatz kind) and
# recomputes every reported number with numpy from the shadow as it is at the time of the call.
def conserving_strings(rng, L):
    """a Hermitian, particle-number conserving Pauli operator on L qubits, as (z, x, q, [re, im]) strings"""
    def e(*js):
        return [1 if j in js else 0 for j in range(L)]

    def w():
        return [rng.randint(-12, 12) / 8 or 0.625, 0.0]
    strings = [(e(j), e(), 0, w()) for j in range(L)]
    for j in range(L - 1):
        b = w()
        strings.append((e(), e(j, j + 1), 0, b))                    # X X
        strings.append((e(j, j + 1), e(j, j + 1), 0, list(b)))      # Y Y  (XX + YY conserves the number of set bits)
        strings.append((e(j, j + 1), e(), 0, w()))                  # Z Z
    return strings


def occ_state(L, nocc):
    state = np.array([1.0])
    for j in range(L):
        state = np.kron(state, np.array([0., 1.]) if j < nocc else np.array([1., 0.]))
    return state


def sector_state(L, nocc, amps):
    idx = [i for i in range(2 ** L) if bin(i).count("1") == nocc]
    v = np.zeros(2 ** L)
    for i, a in zip(idx, amps):
        v[i] = a
    return v / np.linalg.norm(v)


def wt(w):
    """weight: a float when real (the operator matrix then has a real dtype, which scipy's COBYLA needs), else complex"""
    return float(w[0]) if w[1] == 0 else complex(*w)


def mk_pauli_op_w(strings):
    from qib.operator.pauli_operator import PauliString, WeightedPauliString, PauliOperator
    return PauliOperator([WeightedPauliString(PauliString(list(z), list(x), q), wt(w)) for z, x, q, w in strings])


def apply_op_mutation(op, strings, m):
    """the same change on the library object (in place) and on the shadow; returns the new shadow"""
    from qib.operator.pauli_operator import PauliString, WeightedPauliString
    if m[0] == "op_add":            # add_pauli_string (merges into an existing string or appends)
        z, x, q, w = m[1], m[2], m[3], m[4]
        op.add_pauli_string(WeightedPauliString(PauliString(list(z), list(x), q), wt(w)))
        return strings + [(list(z), list(x), q, list(w))]
    if m[0] == "op_scale":          # weights changed in place
        for ps in op.pstrings:
            ps.weight *= m[1]
        return [("minus", s[1] * m[1]) if s[0] == "minus" else (s[0], s[1], s[2], [s[3][0] * m[1], s[3][1] * m[1]]) for s in strings]
    if m[0] == "op_drop":           # a string removed in place
        k = m[1] % len(op.pstrings)
        if len(op.pstrings) > 1:
            dead = op.pstrings.pop(k)
            D = ref_pauli([(dead.paulis.z, dead.paulis.x, dead.paulis.q, [complex(dead.weight).real, complex(dead.weight).imag])],
                          len(dead.paulis.z))
            # the shadow does not know how the library merged strings: subtract the removed term
            return strings + [("minus", D)]
        return strings
    raise ValueError(m)


def shadow_matrix(strings, n):
    M = ref_pauli([s for s in strings if s[0] != "minus"], n)
    for s in strings:
        if s[0] == "minus":
            M = M - s[1]
    return M


def oracle_vqe_history(ctx, L, init, ops):
    """init = {strings, nocc, exc, x0}; ops:
       ["run"] | ["run_temp"] (operator passed as a temporary) | ["op_add", z, x, q, w] | ["op_scale", s] | ["op_drop", k] |
       ["op_new", strings] | ["init", nocc] | ["init_inplace", nocc] | ["init_amps", [..]] | ["ansatz", exc, x0] | ["x0", [..]] |
       ["secondary", strings]"""
    import copy
    import qib
    field = mk_field(L)
    strings = [tuple(s) for s in init["strings"]]
    op = mk_pauli_op_w(strings)
    sh = {"nocc": init["nocc"], "exc": init["exc"], "x0": list(init["x0"]), "state": occ_state(L, init["nocc"])}
    if init.get("vec") is not None:            # a general (real) initial vector, possibly spanning several particle sectors
        sh["state"] = np.array(init["vec"], dtype=float) / np.linalg.norm(init["vec"])

    def mk_opt(x0):
        return qib.algorithms.vqe.Optimizer(x0=np.array(x0, dtype=float), method="COBYLA", tol=1e-3, options={"maxiter": len(x0) + 10})
    solv = qib.algorithms.vqe.VQE(ansatz=qib.algorithms.vqe.ansatz.qUCC(field, excitations=sh["exc"], embedding="jordan_wigner"),
                                  optimizer=mk_opt(sh["x0"]), initial_state=np.array(sh["state"]), measure_method="statevector")
    nrun, last_change = 0, "construction"
    changed_since_run = True
    results = []

    def inp_of(k):
        return {"kind": "vqe-history", "L": L, "init": init, "ops": [list(o) for o in ops[:k + 1]]}

    for k, m in enumerate(ops):
        if m[0] in ("run", "run_temp"):
            if m[0] == "run":
                res = solv.run(op)
            else:
                res = solv.run(copy.deepcopy(op))         # no reference kept: the next temporary may reuse its address
            nrun += 1
            tag = "run %s on one VQE instance (last change: %s)" % ("1" if nrun == 1 else ">=2", last_change)
            P = shadow_matrix(strings, L)
            psi = ref_qucc(L, sh["exc"], res.x) @ sh["state"]
            e_ref = complex(np.vdot(psi, P @ psi))
            e = complex(res.fun)
            scale = max(1.0, abs(e_ref))
            if abs(e - e_ref) > 1e-7 * scale:
                ctx.fail("history:VQE: reported energy != psi^dagger P psi for the CURRENT operator, ansatz and initial state, " + tag,
                         inp_of(k), repr(e_ref), repr(e))
                break
            # the ansatz conserves the particle number and the operators of a history do too: the energy is the mixture, over
            # the sectors the initial state has weight in, of energies each bounded below by that sector's lowest eigenvalue
            occ = np.array([bin(i).count("1") for i in range(2 ** L)])
            wsec = {int(n_): float(np.sum(np.abs(sh["state"][occ == n_]) ** 2)) for n_ in range(L + 1)}
            emin = sum(w_ * sector_min(P, L, n_) for n_, w_ in wsec.items() if w_ > 1e-14) / sum(wsec.values())
            if e.real < emin - 1e-8 * scale:
                ctx.fail("history:VQE: reported energy undercuts the lowest eigenvalue of the current operator in the sector, " + tag,
                         inp_of(k), emin, e.real)
                break
            fresh = qib.algorithms.vqe.VQE(ansatz=qib.algorithms.vqe.ansatz.qUCC(field, excitations=sh["exc"], embedding="jordan_wigner"),
                                           optimizer=mk_opt(sh["x0"]), initial_state=np.array(sh["state"]), measure_method="statevector")
            rf = fresh.run(copy.deepcopy(op))
            if abs(complex(rf.fun) - e) > 1e-7 * scale:
                ctx.fail("history:VQE: a re-used instance reports another optimum than a fresh instance with the same inputs, " + tag,
                         inp_of(k), repr(complex(rf.fun)), repr(e))
                break
            results.append((res, e, np.array(res.x, copy=True)))
            # results handed out earlier are unaffected
            for r0, e0, x0_ in results[:-1]:
                if complex(r0.fun) != e0 or not np.array_equal(np.asarray(r0.x), x0_):
                    ctx.fail("history:VQE: a result handed out by an earlier run was changed by a later run", inp_of(k))
                    break
        elif m[0] == "secondary_same":
            # the energy of the last run IS the expectation of the same operator at the optimal parameters
            if nrun and not changed_since_run:
                vals = solv.expectation_secondary_ops([op])
                e_last = results[-1][1]
                if vals is None or abs(complex(vals[0]) - e_last) > 1e-7 * max(1.0, abs(e_last)):
                    ctx.fail("history:VQE: res.fun != expectation_secondary_ops of the same operator right after the run",
                             inp_of(k), repr(e_last), repr(vals))
                    break
            continue
        elif m[0] == "secondary":
            sec = [tuple(s) for s in m[1]]
            vals = solv.expectation_secondary_ops([mk_pauli_op_w(sec)])
            if nrun == 0:
                if vals is not None:
                    ctx.fail("history:VQE: expectation_secondary_ops before any run returns values", inp_of(k), None, repr(vals))
                    break
            else:
                psi = ref_qucc(L, sh["exc"], results[-1][2]) @ sh["state"]
                e_ref = complex(np.vdot(psi, ref_pauli(sec, L) @ psi))
                if vals is None or abs(complex(vals[0]) - e_ref) > 1e-7 * max(1.0, abs(e_ref)):
                    ctx.fail("history:VQE: expectation_secondary_ops != psi^dagger P psi at the optimal parameters of the last run "
                             "(last change: %s)" % last_change, inp_of(k), repr(e_ref), repr(vals))
                    break
            continue
        elif m[0] in ("op_add", "op_scale", "op_drop"):
            strings = apply_op_mutation(op, strings, m)
        elif m[0] == "op_new":
            strings = [tuple(s) for s in m[1]]
            op = mk_pauli_op_w(strings)
        elif m[0] == "init":
            sh["nocc"], sh["state"] = m[1], occ_state(L, m[1])
            solv.initial_state = np.array(sh["state"])
        elif m[0] == "init_inplace":
            sh["nocc"], sh["state"] = m[1], occ_state(L, m[1])
            solv.initial_state[:] = sh["state"]
        elif m[0] == "init_amps":
            sh["state"] = sector_state(L, sh["nocc"], m[1])
            solv.initial_state = np.array(sh["state"])
        elif m[0] == "init_vec":                # a general real vector over the whole space (several particle sectors)
            sh["state"] = np.array(m[1], dtype=float) / np.linalg.norm(m[1])
            solv.initial_state = np.array(sh["state"])
        elif m[0] == "ansatz":
            sh["exc"], sh["x0"] = m[1], list(m[2])
            solv.ansatz = qib.algorithms.vqe.ansatz.qUCC(field, excitations=m[1], embedding="jordan_wigner")
            solv.optimizer.x0 = np.array(m[2], dtype=float)
        elif m[0] == "x0":
            sh["x0"] = list(m[1])
            solv.optimizer.x0 = np.array(m[1], dtype=float)
        else:
            raise ValueError(m)
        changed_since_run = m[0] not in ("run", "run_temp")
        if m[0] not in ("run", "run_temp"):
            last_change = {"init_vec": "initial_state replaced by a superposition of particle sectors","op_add": "add_pauli_string on the same operator object", "op_scale": "weights of the same operator object changed",
                           "op_drop": "a string removed from the same operator object", "op_new": "another operator object",
                           "init": "initial_state replaced", "init_inplace": "initial_state changed in place",
                           "init_amps": "initial_state replaced", "ansatz": "ansatz replaced", "x0": "optimizer.x0 replaced"}[m[0]]
    return nrun


def op_term(op):
    return ct.lst([ct.pair(ct.pair(ct.bits(w.paulis.z), ct.bits(w.paulis.x), ct.z(w.paulis.q)), ct.qi(complex(w.weight)))
                   for w in op.pstrings])


def oracle_value_history(ctx, n, init_strings, state, ops, events=None):
    """measure_expectation_statevector / PauliOperator.as_matrix called repeatedly on ONE operator object and ONE state array
    that are changed in place in between.  ops: ["measure"] | ["matrix"] | ["op_add", ..] | ["op_scale", s] | ["op_drop", k] |
    ["state_inplace", [[re, im], ..]].  Values and matrices handed out earlier must stay what they were."""
    from qib.algorithms.vqe.vqe import measure_expectation_statevector
    strings = [tuple(s) for s in init_strings]
    op = mk_pauli_op(strings)
    psi = cstate(state)
    held = []
    last_change = "construction"
    if events is not None:      # for the exact Coq case: what the operator object / the state array contain, re-read after every change
        events += ["HOp %s" % op_term(op), "HPsi %s" % ct.lst([ct.qi(complex(c)) for c in psi])]

    def inp_of(k):
        return {"kind": "value-history", "n": n, "strings": init_strings, "state": state, "ops": [list(o) for o in ops[:k + 1]]}
    for k, m in enumerate(ops):
        if m[0] == "measure":
            val = complex(measure_expectation_statevector(op, psi))
            if events is not None:
                events.append(("HMeasure", val))
            ref = complex(np.vdot(psi, shadow_matrix(strings, n) @ psi))
            if abs(val - ref) > TOL * max(1.0, abs(ref)):
                ctx.fail("history:expectation != psi^dagger P psi for the CURRENT operator and state (last change: %s)" % last_change,
                         inp_of(k), repr(ref), repr(val))
                return False
        elif m[0] == "matrix":
            M = op.as_matrix()
            held.append((M, shadow_matrix(strings, n), k))
        elif m[0] == "state_inplace":
            psi[:] = cstate(m[1])
            last_change = "state changed in place"
            if events is not None:
                events.append("HPsi %s" % ct.lst([ct.qi(complex(c)) for c in psi]))
        else:
            strings = apply_op_mutation(op, strings, m)
            if events is not None:
                events.append("HOp %s" % op_term(op))
            last_change = {"op_add": "add_pauli_string on the same operator object", "op_scale": "weights of the same operator object changed",
                           "op_drop": "a string removed from the same operator object"}[m[0]]
        for M, R, k0 in held:
            A = M.toarray() if hasattr(M, "toarray") else np.asarray(M)
            if A.shape != R.shape or np.abs(A - R).max() > 1e-12:
                ctx.fail("history:operator matrix %s" % ("!= the current operator (last change: %s)" % last_change if k0 == k else
                                                          "handed out earlier was changed by a later call"),
                         dict(inp_of(k), obtained_at_step=k0))
                return False
    return True


def oracle_qucc_history(ctx, L, exc, plist):
    """one qUCC object asked for several parameter vectors; the SAME parameter array is overwritten in place between calls;
    every matrix handed out must equal the reference for the parameters of ITS call, also after the later calls; the matrix of
    every call is unitary, commutes with the particle number and equals the matrix of a fresh object"""
    import qib
    ans = qib.algorithms.vqe.ansatz.qUCC(mk_field(L), excitations=exc, embedding="jordan_wigner")
    inp = {"kind": "qucc-history", "L": L, "exc": exc, "plist": [[float(p) for p in ps] for ps in plist]}
    buf = np.array(plist[0], dtype=float)
    held = []
    N = ref_number(L)
    for k, ps in enumerate(plist):
        buf[:] = ps
        held.append((ans.as_matrix(buf), ref_qucc(L, exc, ps), k))
        bad = False
        for U, R, k0 in held:
            dev = np.abs(U.toarray() - R).max()
            if dev > 1e-8:
                ctx.fail("history:qUCC(%s): %s" % (exc, "matrix != prod exp(T - T^dagger) for the parameters of this call (same array object as before)"
                                                   if k0 == k else "matrix handed out earlier was changed by a later call"),
                         dict(inp, plist=inp["plist"][:k + 1], obtained_at_call=k0), None, "%.3g" % dev)
                bad = True
                break
        # the property itself on the matrix of THIS call (whatever the object was asked before), and a fresh object
        Uk = held[-1][0].toarray()
        here = dict(inp, plist=inp["plist"][:k + 1], obtained_at_call=k)
        dev = np.abs(Uk @ Uk.conj().T - np.eye(2 ** L)).max()
        if dev > 1e-8:
            ctx.fail("history:qUCC(%s): matrix of a later call on one ansatz object not unitary" % exc, here, "||U U^dag - 1|| = 0", "%.3g" % dev)
            bad = True
        dev = np.abs(Uk @ N - N @ Uk).max()
        if dev > 1e-8:
            ctx.fail("history:qUCC(%s): matrix of a later call on one ansatz object does not commute with the particle number" % exc, here,
                     "[U, N] = 0", "%.3g" % dev)
            bad = True
        Uf = qib.algorithms.vqe.ansatz.qUCC(mk_field(L), excitations=exc, embedding="jordan_wigner").as_matrix(np.array(ps, dtype=float)).toarray()
        dev = np.abs(Uk - Uf).max()
        if dev > 1e-10:
            ctx.fail("history:qUCC(%s): a re-used ansatz object gives another matrix than a fresh object for the same parameters" % exc, here,
                     "same matrix", "%.3g" % dev)
            bad = True
        if bad:
            return


def special_params(rng, L, exc, kind):
    """parameter vectors for which exp(T - T^dagger) is NOT generic: zeros, equal amplitudes / a symmetric singles matrix
    (T = T^dagger: identity), diagonal only, one-hot, amplitudes on a subset of the orbitals, tiny amplitudes"""
    parts = []
    for kinds in KINDS[exc]:
        k = len(kinds)
        a = np.zeros(k * (L,))
        if kind == "zeros":
            pass
        elif kind == "equal":
            a[...] = rng.choice([1.0, 0.5, -0.75])
        elif kind == "symmetric":
            m = np.array([rng.uniform(-1, 1) for _ in range(L ** k)]).reshape(k * (L,))
            a = m + m.transpose(tuple(reversed(range(k))))                # t_ij = t_ji / t_ijkl = t_lkji: T Hermitian
        elif kind == "diagonal":
            for i in range(L):
                a[(i,) * k] = rng.uniform(-1, 1)
        elif kind == "one-hot":
            idx = tuple(rng.randrange(L) for _ in range(k))
            if k == 2 and L > 1:
                while idx[0] == idx[1]:
                    idx = tuple(rng.randrange(L) for _ in range(k))
            elif k == 4 and L > 1:
                i, j = rng.sample(range(L), 2)
                idx = rng.choice([(i, j, i, j), (i, j, j, i), (i, i, j, j), (i, j, j, j)])
            a[idx] = rng.choice([1.0, -0.5, 0.3])
        elif kind == "subset":
            sub = sorted(rng.sample(range(L), max(1, L - 1)))
            for idx in itertools.product(sub, repeat=k):
                a[idx] = rng.uniform(-1, 1)
        elif kind == "tiny":
            a = np.array([rng.uniform(-1, 1) * 1e-9 for _ in range(L ** k)]).reshape(k * (L,))
        else:
            raise KeyError(kind)
        parts.append(a.reshape(-1))
    return [float(v) for v in np.concatenate(parts)]


SPECIAL_KINDS = ["zeros", "equal", "symmetric", "diagonal", "one-hot", "subset", "tiny"]


# ------------------------------------------------------------------------------ run
def qi_list(v):
    return ct.lst([ct.qi(complex(c)) for c in v])


def run(ctx):
    import vqe as gen
    ctx.trusted.append(
        "C20: `a @ M @ b` on 1-d arrays is sum_ij a_i M_ij b_j, .T on a 1-d array is the identity, .conj() conjugates "
        "entrywise (the translator reads which of these the source uses); the Jordan-Wigner matrix of the cluster operator "
        "is the hand-written bit-string model Qib.VQE.VqeModel (ladder operators with the sign of the occupations after the "
        "site), tied exactly to jordan_wigner_encode_field_operator(...).as_matrix(); the operator kinds, the sign in the expm "
        "argument and the product order of the sd form are regenerated from the source; row-major reshape of the parameters is "
        "hand-modelled. BACKGROUND not proved: (B1) exp of an anti-Hermitian matrix is unitary, (B2) exp(G) commutes with what G "
        "commutes with, (B3) Rayleigh/variational principle. scipy.linalg.expm = matrix exponential")
    ctx.assumes.append("C20 is PARTIAL in the clauses 'within the spectral range' and 'never undercuts the lowest eigenvalue of "
                       "the sector': they follow from the proved facts only together with B1-B3; they are tested numerically")
    nmax = 5 if ctx.thorough else 3
    ctx.rules.append("expectation: Pauli operators with 1-5 random strings on 1..%d qubits with complex dyadic weights (Hermitian "
                     "and not; identity-only, single non-Hermitian string, zero weight), random complex dyadic states (20%% real), plus <Y> on (1,i)/sqrt2; "
                     "cluster matrices: singles L<=%d, doubles L<=%d with dyadic parameters; qUCC s/d/sd with random real parameters, "
                     "L=2..3 (4 for s%s); tiny VQE runs (s, d, sd; real and complex-phase initial state). "
                     "non-trivial = state with a non-zero imaginary part, or a cluster/qUCC case with >= 2 non-zero parameters, or a VQE run; "
                     "distinct by the full input" % (nmax, 5 if ctx.thorough else 4, 4 if ctx.thorough else 3, " and d" if ctx.thorough else ""))
    ctx.lib(["VQE/VqeCheck", "VQE/VqeProofs", "VQE/VqeReal", "VQE/VqeHistProofs"])
    ok_tr = ctx.translate("GenVqe", gen.generate)
    if ok_tr:
        ctx.props()
    else:
        ctx.oblige("props:C20", "theorem", False, "not compiled: translator failed")

    rng = ctx.rng
    cases = []

    sampled = set()

    def add(term, desc, nontrivial=True):
        cases.append((term, desc))
        if nontrivial:
            ctx.nontriv(desc)
            cat = (desc["op"], desc.get("n", desc.get("L")))
            if desc["op"] not in [c[0] for c in sampled] or (len(sampled) < 4 and cat not in sampled and cat[1] >= 2):
                sampled.add(cat)
                ctx.sample(desc)

    def dy(den=4, lim=8):
        return rng.randint(-lim, lim) / den

    ctx.log("start expectation")
    # ---------------------------------------------------------------- expectation values
    exps = [(1, [([1], [1], 0, [1.0, 0.0])], [[2 ** -0.5, 0.0], [0.0, 2 ** -0.5]]),      # <Y> on (1,i)/sqrt2
            (1, [([1], [0], 0, [1.0, 0.0])], [[1.0, 1.0], [0.0, 0.0]]),                  # <Z> on (1+i, 0)
            (1, [([1], [1], 0, [1.0, 0.0])], [[1.0, 0.0], [0.0, 1.0]]),                  # <Y> on (1, i)
            (2, [([0, 0], [0, 0], 0, [1.5, 0.0])], [[0.5, 0.25], [0.0, -1.0], [0.75, 0.0], [0.0, 0.0]]),   # 1.5 * identity
            (2, [([1, 0], [1, 1], 1, [1.0, 0.0])], [[0.5, 0.25], [0.0, -1.0], [0.75, 0.0], [0.25, 0.25]]),  # -i Y(x)X : not Hermitian
            (1, [([1], [1], 0, [0.0, 0.0]), ([0], [1], 0, [0.5, 0.0])], [[0.0, 1.0], [1.0, 0.0]]),     # zero weight + X
            (2, [([1, 1], [1, 0], 0, [0.0, 1.0])], [[0.5, 0.5], [0.0, 0.0], [0.0, 0.0], [0.25, -0.5]])]    # i * YZ : anti-Hermitian
    for _ in range(1500 if ctx.thorough else 120):
        n = rng.randint(1, nmax)
        herm = rng.random() < 0.7
        strings = []
        seen = set()
        for _k in range(rng.randint(1, 5)):
            z = [rng.randint(0, 1) for _ in range(n)]
            x = [rng.randint(0, 1) for _ in range(n)]
            if (tuple(z), tuple(x)) in seen:
                continue
            seen.add((tuple(z), tuple(x)))
            if herm:
                q, w = rng.choice([0, 2]), [dy() or 1.0, 0.0]
            else:
                q, w = rng.randint(0, 3), [dy(), dy()]
            strings.append((z, x, q, w))
        kind = rng.random()
        if kind < 0.2:
            state = [[dy(), 0.0] for _ in range(2 ** n)]
        else:
            state = [[dy(), dy()] for _ in range(2 ** n)]
        if all(a == 0 and b == 0 for a, b in state):
            state[0] = [1.0, 0.0]
        exps.append((n, strings, state))
    for n, strings, state in exps:
        ctx.count("expect_n=%d" % n)
        cplx = any(b != 0 for _, b in state)
        ctx.count("expect_complex_state" if cplx else "expect_real_state")
        desc = {"kind": "expect", "n": n, "strings": strings, "state": state}
        try:
            val, op = oracle_expect(ctx, n, strings, state)
        except Exception as e:
            ctx.fail("expectation:exception:" + type(e).__name__, desc, "a number", repr(e))
            continue
        exact = all(float(a * 8).is_integer() and float(b * 8).is_integer() for a, b in state)
        if exact:
            opt = ct.lst([ct.pair(ct.pair(ct.bits(w.paulis.z), ct.bits(w.paulis.x), ct.z(w.paulis.q)), ct.qi(complex(w.weight)))
                          for w in op.pstrings])
            add("CExpect %s %s %s %s" % (ct.nat(n), opt, qi_list(cstate(state)), ct.qi(val)), dict(desc, op="expectation"), cplx)

    ctx.log("start cluster")
    # ---------------------------------------------------------------- cluster operator matrices (exact)
    clus = []
    for L in range(1, (5 if ctx.thorough else 3) + 1):
        for kinds in ([True, False], [True, True, False, False]):
            if len(kinds) == 4 and L > (4 if ctx.thorough else 3):
                continue
            for rep in range(4 if ctx.thorough else 2):
                cnt = L ** len(kinds)
                dens = 1.0 if cnt <= 16 else (0.35 if cnt <= 81 else 0.08)
                params = [dy(8, 12) if rng.random() < dens else 0.0 for _ in range(cnt)]
                clus.append((L, kinds, params))
    if not ctx.thorough:
        clus.append((4, [True, False], [dy(8, 12) for _ in range(16)]))
    for L, kinds, params in clus:
        ctx.count("cluster_%s_L=%d" % ("s" if len(kinds) == 2 else "d", L))
        desc = {"kind": "cluster", "L": L, "kinds": kinds, "params": params}
        try:
            T = lib_cluster(L, kinds, params) if any(params) else np.zeros((2 ** L, 2 ** L))
        except Exception as e:
            ctx.fail("cluster:exception:" + type(e).__name__, desc, "a matrix", repr(e))
            continue
        R = ref_cluster(L, kinds, params)
        if np.abs(T - R).max() > 1e-12:
            ctx.fail("cluster operator: Jordan-Wigner matrix != sum of ladder-operator products", desc, None, "%.3g" % np.abs(T - R).max())
        add("CCluster %s %s %s %s" % (ct.nat(L), ct.lst([ct.b(k) for k in kinds]), qi_list(params), ct.qimat(T)),
            dict(desc, op="cluster matrix"), sum(1 for p in params if p) >= 2)

    ctx.log("start qucc")
    # ---------------------------------------------------------------- qUCC matrices (numerical)
    from scipy.linalg import expm
    struct_bad = []
    nstruct = 0
    for exc in ("s", "d", "sd"):
        for L in ((2, 3, 4, 5) if (exc == "s" and ctx.thorough) else ((2, 3, 4) if (exc == "s" or (ctx.thorough and exc == "d")) else (2, 3))):
            for rep in range((10 if L <= 3 else 3) if ctx.thorough else 2):
                cnt = sum(L ** len(k) for k in KINDS[exc])
                params = [rng.uniform(-1.5, 1.5) if rng.random() < 0.8 else 0.0 for _ in range(cnt)]
                ctx.count("qucc_%s_L=%d" % (exc, L))
                desc = {"kind": "qucc", "L": L, "exc": exc, "nparams": cnt}
                try:
                    U = oracle_qucc(ctx, L, exc, params)
                except Exception as e:
                    ctx.fail("qUCC(%s):exception:%s" % (exc, type(e).__name__), {"kind": "qucc", "L": L, "exc": exc, "params": params},
                             "a matrix", repr(e))
                    continue
                ctx.nontriv(dict(desc, rep=rep, first=params[:2]))
                # tie of as_matrix to the structure the theorems are about (kinds s / d, sign -1, order U0 U1), with the
                # library's own JW cluster matrices (which the Coq model reproduces exactly, CCluster cases)
                S = np.eye(2 ** L, dtype=complex)
                off = 0
                for kinds in KINDS[exc]:
                    c = L ** len(kinds)
                    T = lib_cluster(L, kinds, params[off:off + c]) if any(params[off:off + c]) else np.zeros((2 ** L, 2 ** L))
                    off += c
                    S = S @ expm(T - T.conj().T)
                nstruct += 1
                if np.abs(S - U).max() > 1e-8:
                    struct_bad.append(desc)
    ctx.evaluations += nstruct
    ctx.traces += nstruct
    ctx.oblige("correspondence:qucc-structure", "correspondence", not struct_bad,
               "%d of %d qUCC matrices differ from prod expm(T - T^dagger) of the library's own JW cluster matrices; first %r"
               % (len(struct_bad), nstruct, struct_bad[:1]))

    # ---------------------------------------------------------------- complex amplitudes, every container / dtype
    ctx.rules.append("qUCC with COMPLEX cluster amplitudes, s / d / sd, L = 2, 3 (thorough: s on 4): generic, purely imaginary, real values "
                     "in a complex type, Hermitian amplitude tensor (U = 1), i x symmetric tensor, one-hot, real vector times a global phase, "
                     "small imaginary parts; handed over as list / tuple of Python complex, list mixing float and complex, complex128 / "
                     "complex64 / object arrays: unitary, [U, N] = 0, = prod exp(T - T^dagger) of the independently built cluster operator, "
                     "real-valued amplitudes in a complex type = the real-parameter matrix, energies of U psi0 real and within the sector range")
    ncx = 0
    for exc in ("s", "d", "sd"):
        for L in ((2, 3, 4) if (ctx.thorough and exc == "s") else (2, 3)):
            for ki, kind in enumerate(CPARAM_KINDS):
                if L == 3 and exc != "s" and not ctx.thorough and ki % 3 != ncx % 3:
                    continue
                forms = CPARAM_FORMS if (ctx.thorough or (L == 2 and ki < 2)) else [CPARAM_FORMS[(ki + ncx) % len(CPARAM_FORMS)], "array-complex128"]
                if L == 3 and exc != "s" and not ctx.thorough:
                    forms = forms[:1]
                cp = complex_params(rng, L, exc, kind)
                for form in dict.fromkeys(forms):
                    ctx.count("qucc_complex_%s_L=%d" % (exc, L))
                    ctx.count("qucc_complex_as_" + form)
                    try:
                        U = oracle_qucc_complex(ctx, L, exc, cp, form, kind)
                    except Exception as e:
                        ctx.fail("qUCC(%s), complex amplitudes:exception:%s" % (exc, type(e).__name__),
                                 {"kind": "qucc-complex", "L": L, "exc": exc, "params": cp, "as": form, "param_kind": kind}, "a matrix", repr(e))
                        continue
                    if U is not None:
                        ctx.evaluations += 1
                        ctx.nontriv({"kind": "qucc-complex", "L": L, "exc": exc, "param_kind": kind, "as": form, "first": cp[:2]})
                ncx += 1

    ctx.log("start vqe")
    # ---------------------------------------------------------------- optimiser energies (a test, not a proof)
    # (real initial states only: with a complex one scipy's COBYLA rejects the complex-typed energy, see notes/C20.md;
    #  complex initial states go through oracle_landscape below)
    runs = [(2, 1, "s", 0.0), (3, 1, "s", 0.0), (3, 2, "s", 0.0), (2, 1, "sd", 0.0), (3, 2, "d", 0.0)]
    if ctx.thorough:
        runs += [(4, 2, "s", 0.0), (4, 1, "s", 0.0), (3, 1, "sd", 0.0), (3, 2, "sd", 0.0), (2, 2, "d", 0.0),
                 (4, 3, "s", 0.0), (2, 0, "s", 0.0), (3, 3, "sd", 0.0)]
    nvqe = 0
    for L, nocc, exc, phase in runs:
        x0 = [rng.uniform(0, 1) for _ in range(sum(L ** len(k) for k in KINDS[exc]))]
        ctx.count("vqe_%s_L=%d" % (exc, L))
        try:
            emin, lo, nev = oracle_vqe(ctx, L, nocc, x0, exc, maxiter=(120 if exc != "s" else (200 if ctx.thorough else 120)), phase=phase)
            ctx.evaluations += 1
            ctx.nontriv({"kind": "vqe", "L": L, "nocc": nocc, "exc": exc, "phase": phase, "evaluations": nev})
            if nvqe < 1:
                ctx.sample({"kind": "vqe", "L": L, "nocc": nocc, "exc": exc, "phase": phase, "sector_min": emin,
                            "lowest_reported": lo, "evaluations": nev})
            nvqe += 1
        except Exception as e:
            ctx.fail("VQE:exception:" + type(e).__name__, {"kind": "vqe", "L": L, "nocc": nocc, "x0": x0, "exc": exc, "phase": phase},
                     "a result", repr(e))

    ctx.log("start landscape")
    # ---------------------------------------------------------------- energies of the ansatz state, any parameters, complex initial states
    nland = 0
    for exc in ("s", "d", "sd"):
        for L in ((2, 3, 4) if (exc == "s" or ctx.thorough) and exc != "sd" else (2, 3)):
            for nocc in range(0, L + 1):
                for rep in range(6 if ctx.thorough else 2):
                    cnt = sum(L ** len(k) for k in KINDS[exc])
                    scale = rng.choice([0.3, 1.5, 6.0])
                    params = [rng.uniform(-scale, scale) for _ in range(cnt)]
                    nsec = len([i for i in range(2 ** L) if bin(i).count("1") == nocc])
                    amps = [[rng.gauss(0, 1), rng.gauss(0, 1)] for _ in range(nsec)]
                    ctx.count("landscape_%s_L=%d" % (exc, L))
                    desc = {"kind": "landscape", "L": L, "nocc": nocc, "exc": exc, "rep": rep, "first": params[:2]}
                    try:
                        e, lo, hi = oracle_landscape(ctx, L, nocc, exc, params, amps)
                    except Exception as ex:
                        ctx.fail("VQE:exception:" + type(ex).__name__, {"kind": "landscape", "L": L, "nocc": nocc, "exc": exc,
                                                                        "params": params, "amps": amps}, "an energy", repr(ex))
                        continue
                    ctx.evaluations += 1
                    ctx.nontriv(desc)
                    if nland == 7:
                        ctx.sample(dict(desc, energy=e, sector_range=[lo, hi]))
                    nland += 1

    ctx.log("start histories")
    # ---------------------------------------------------------------- several uses of one object, inputs changed in between
    ctx.rules.append("histories: one VQE instance run 2-4 times with the operator changed IN PLACE (add_pauli_string incl. a constant "
                     "offset, weights rescaled, a string removed), replaced, passed as a temporary, the initial state replaced / "
                     "overwritten in place, the ansatz and x0 replaced; every reported optimum compared with psi^dagger P psi from a "
                     "numpy reference of the CURRENT inputs, with the sector minimum, and with a fresh instance; the same for "
                     "measure_expectation_statevector / PauliOperator.as_matrix on one operator object and one state array, and for "
                     "qUCC.as_matrix on one parameter array overwritten in place")
    nparam = {"s": lambda L: L ** 2, "d": lambda L: L ** 4, "sd": lambda L: L ** 2 + L ** 4}

    def rx0(exc, L):
        return [round(rng.uniform(0, 1), 6) for _ in range(nparam[exc](L))]

    def ident(L, c):
        return ["op_add", L * [0], L * [0], 0, [c, 0.0]]
    vh = []
    L = 2
    muts = [[ident(L, 3.0)], [["op_scale", -1.5]], [["op_add", [1, 1], [0, 0], 0, [0.75, 0.0]]], [["op_drop", 0]],
            [["op_new", None]], [["init", 2]], [["init_inplace", 0]], [["init_amps", [0.6, -0.8]]], [["ansatz", "d", None]],
            [["x0", None]]]
    for mut in muts:
        mut = [list(m) for m in mut]
        for m in mut:
            if m[0] == "op_new":
                m[1] = conserving_strings(rng, L)
            if m[0] == "ansatz":
                m[2] = rx0(m[1], L)
            if m[0] == "x0":
                m[1] = rx0("s", L)
        init = {"strings": conserving_strings(rng, L), "nocc": 1, "exc": "s", "x0": rx0("s", L)}
        vh.append((L, init, [["run"], ["secondary", conserving_strings(rng, L)]] + mut + [["run"], ["secondary", conserving_strings(rng, L)]]))
    # temporaries (an address can be reused by the next operator object)
    for _ in range(2):
        init = {"strings": conserving_strings(rng, L), "nocc": 1, "exc": "s", "x0": rx0("s", L)}
        vh.append((L, init, [["run_temp"], ["op_new", conserving_strings(rng, L)], ["run_temp"], ident(L, -2.5), ["run_temp"]]))
    for _ in range(12 if ctx.thorough else 3):
        L = rng.choice([2, 2, 3]) if ctx.thorough else 2
        exc = rng.choice(["s", "s", "sd"]) if L == 2 else "s"
        nocc = rng.randint(1, L - 1) if L > 2 else 1
        init = {"strings": conserving_strings(rng, L), "nocc": nocc, "exc": exc, "x0": rx0(exc, L)}
        ops = [[rng.choice(["run", "run_temp"])]]
        for _k in range(rng.randint(2, 3)):
            r = rng.random()
            if r < 0.3:
                ops.append(ident(L, rng.randint(-20, 20) / 4 or 1.0))
            elif r < 0.45:
                ops.append(["op_scale", rng.choice([-2.0, 0.5, 3.0])])
            elif r < 0.6:
                z = [rng.randint(0, 1) for _ in range(L)]
                ops.append(["op_add", z, L * [0], 0, [rng.randint(-8, 8) / 4 or 0.5, 0.0]])
            elif r < 0.7:
                ops.append(["op_new", conserving_strings(rng, L)])
            elif r < 0.8:
                nocc = rng.randint(0, L)
                ops.append([rng.choice(["init", "init_inplace"]), nocc])
            elif r < 0.9:
                ops.append(["x0", rx0(exc, L)])
            else:
                ops.append(["op_drop", rng.randint(0, 5)])
            ops.append([rng.choice(["run", "run", "run_temp"])])
        vh.append((L, init, ops))
    # special FIRST parameters (the first call on the ansatz object of a VQE instance is x0): zeros, equal amplitudes, one-hot,
    # then generic ones on the same instance; res.fun = expectation_secondary_ops of the same operator
    ctx.rules.append("call histories with special first parameters: one qUCC object (directly, and as the ansatz of one VQE instance via "
                     "x0) first evaluated at zeros / equal amplitudes / a symmetric or diagonal amplitude tensor / one-hot / amplitudes on "
                     "a subset of the orbitals / 1e-9-sized amplitudes, then at generic parameters, then special again: every matrix = "
                     "prod exp(T - T^dagger), unitary, commutes with N, equals the matrix of a fresh object; VQE with initial states "
                     "SPANNING SEVERAL PARTICLE SECTORS (two basis states of different particle number, random real vectors over the "
                     "whole space, switching between single-sector and mixed states on one instance): res.fun = psi^dagger P psi of the "
                     "normalised ansatz state at res.x = expectation_secondary_ops of the same operator, never below the weighted mean "
                     "of the sector minima, same as a fresh instance")
    for kind in (SPECIAL_KINDS if ctx.thorough else ["zeros", "equal", "one-hot"]):
        for exc in (("s", "d", "sd") if ctx.thorough or kind == "zeros" else ("s",)):
            L = 2
            init = {"strings": conserving_strings(rng, L), "nocc": 1, "exc": exc, "x0": special_params(rng, L, exc, kind)}
            vh.append((L, init, [["run"], ["secondary_same"], ["x0", rx0(exc, L)], ["run"], ["secondary_same"],
                                 ["x0", special_params(rng, L, exc, rng.choice(SPECIAL_KINDS))], ["run"]]))
    mixed = [(2, [0.0, 1.0, 0.0, 1.0]),                       # |01> + |11>: one and two particles
             (2, [1.0, 0.5, -0.5, 0.25]),                     # all three sectors
             (3, [0, 0, 0, 1.0, 0, 0, 0, 1.0]),               # |011> + |111>
             (3, [0, 0.6, 0, 0.8, 0, 0, 0.3, 0])]             # one- and two-particle states, largest amplitude in sector 2
    for L, vec in mixed + [(2, [rng.uniform(-1, 1) for _ in range(4)]) for _ in range(6 if ctx.thorough else 2)] \
            + ([(3, [rng.uniform(-1, 1) for _ in range(8)]) for _ in range(3)] if ctx.thorough else []):
        exc = "s" if L == 3 else rng.choice(["s", "s", "sd", "d"])
        init = {"strings": conserving_strings(rng, L), "nocc": 1, "exc": exc, "x0": rx0(exc, L), "vec": [float(v) for v in vec]}
        other = [rng.uniform(-1, 1) for _ in range(2 ** L)]
        vh.append((L, init, [["run"], ["secondary_same"], ["secondary", conserving_strings(rng, L)], ["init", rng.randint(1, L)], ["run"],
                             ["init_vec", [float(v) for v in other]], ["run"], ["secondary_same"]]))
    for L, init, ops in vh:
        ctx.count("history_vqe")
        for m in ops:
            if m[0] not in ("run", "run_temp", "secondary"):
                ctx.count("history_vqe_with_" + m[0])
        try:
            nrun = oracle_vqe_history(ctx, L, init, ops)
        except Exception as e:
            ctx.fail("history:VQE:exception:" + type(e).__name__, {"kind": "vqe-history", "L": L, "init": init, "ops": ops},
                     "every call of the history succeeds", repr(e))
            continue
        ctx.count("history_vqe_runs", nrun)
        ctx.evaluations += 1
        desc = {"kind": "vqe-history", "L": L, "exc": init["exc"], "ops": [m[0] for m in ops], "x0_first": init["x0"][0]}
        ctx.nontriv(desc)
        if ("vqe-history",) not in sampled and len(ops) >= 5:
            sampled.add(("vqe-history",))
            ctx.sample(dict(desc, ops=[m if m[0] not in ("op_new", "secondary") else [m[0], "<strings>"] for m in ops]), cap=8)
    # values and matrices of one operator object / one state array
    for rep in range(200 if ctx.thorough else 40):
        n = rng.randint(1, nmax)
        strings = []
        seen = set()
        for _k in range(rng.randint(1, 4)):
            z = [rng.randint(0, 1) for _ in range(n)]
            x = [rng.randint(0, 1) for _ in range(n)]
            if (tuple(z), tuple(x)) not in seen:
                seen.add((tuple(z), tuple(x)))
                strings.append((z, x, rng.randint(0, 3), [dy(), dy()]))
        state = [[dy(), dy()] for _ in range(2 ** n)]
        ops = [["measure"], ["matrix"]]
        for _k in range(rng.randint(1, 4)):
            r = rng.random()
            if r < 0.35:
                s = rng.choice(strings)
                new = rng.random() < 0.5
                z = [rng.randint(0, 1) for _ in range(n)] if new else s[0]
                x = [rng.randint(0, 1) for _ in range(n)] if new else s[1]
                ops.append(["op_add", z, x, rng.randint(0, 3) if new else s[2], [dy() or 1.0, dy()]])
            elif r < 0.55:
                ops.append(["op_scale", rng.choice([-1.0, 0.5, 2.0])])
            elif r < 0.7:
                ops.append(["op_drop", rng.randint(0, 3)])
            else:
                ops.append(["state_inplace", [[dy(), dy()] for _ in range(2 ** n)]])
            ops.append(["measure"])
            if rng.random() < 0.5:
                ops.append(["matrix"])
        ctx.count("history_value")
        evs = []
        try:
            okh = oracle_value_history(ctx, n, strings, state, ops, events=evs)
        except Exception as e:
            ctx.fail("history:expectation:exception:" + type(e).__name__,
                     {"kind": "value-history", "n": n, "strings": strings, "state": state, "ops": ops}, None, repr(e))
            continue
        ctx.evaluations += 1
        ctx.nontriv({"kind": "value-history", "n": n, "rep": rep, "ops": [m[0] for m in ops]})
        if okh:
            vals = [e[1] for e in evs if isinstance(e, tuple)]
            add("CHistExpect %s %s %s" % (ct.nat(n), ct.lst([e[0] if isinstance(e, tuple) else e for e in evs]),
                                           ct.lst([ct.qi(v) for v in vals])),
                {"kind": "value-history", "n": n, "op": "expectation history", "strings": strings, "state": state, "ops": ops}, True)
    qh = []
    for exc in ("s", "d", "sd"):
        for L in (2, 3) if exc == "s" or ctx.thorough else (2,):
            for rep in range(3 if ctx.thorough else 1):
                cnt = nparam[exc](L)
                qh.append((exc, L, rep, [[rng.uniform(-1.5, 1.5) for _ in range(cnt)] for _ in range(3)]))
    # special first parameters, generic ones afterwards, special again
    for exc in ("s", "d", "sd"):
        for L in (2, 3):
            if L == 3 and exc != "s" and not ctx.thorough:
                kinds = [rng.choice(SPECIAL_KINDS)]
            else:
                kinds = SPECIAL_KINDS
            for kind in kinds:
                cnt = nparam[exc](L)
                gen = lambda: [rng.uniform(-1.5, 1.5) for _ in range(cnt)]
                qh.append((exc, L, "first-" + kind, [special_params(rng, L, exc, kind), gen(),
                                                     special_params(rng, L, exc, rng.choice(SPECIAL_KINDS)), gen()]))
    for exc, L, rep, plist in qh:
        ctx.count("history_qucc_%s" % exc)
        if isinstance(rep, str):
            ctx.count("history_qucc_" + rep)
        try:
            oracle_qucc_history(ctx, L, exc, plist)
        except Exception as e:
            ctx.fail("history:qUCC(%s):exception:%s" % (exc, type(e).__name__), {"kind": "qucc-history", "L": L, "exc": exc, "plist": plist},
                     None, repr(e))
            continue
        ctx.evaluations += 1
        ctx.nontriv({"kind": "qucc-history", "L": L, "exc": exc, "rep": rep, "first": plist[0][0]})

    ctx.log("start coq cases")
    if ok_tr:
        dis = ctx.cases("vqe", HEADER, cases, fn="bad_cases gen_expect")
        for i, d in dis[:5]:
            ctx.log("model/impl disagree on", d)
        if ctx.thorough and not ctx.broken:
            ctx.coqchk()


def replay(ctx, data):
    inp, sig = data["input"], data["sig"]
    before = len(ctx.failing)
    k = inp.get("kind")
    if k == "expect":
        strings = [(z, x, q, w) for z, x, q, w in inp["strings"]]
        oracle_expect(ctx, inp["n"], strings, inp["state"])
    elif k == "qucc":
        oracle_qucc(ctx, inp["L"], inp["exc"], inp["params"])
    elif k == "vqe":
        oracle_vqe(ctx, inp["L"], inp["nocc"], inp["x0"], inp.get("exc", "s"), phase=inp.get("phase", 0.0))
    elif k == "landscape":
        oracle_landscape(ctx, inp["L"], inp["nocc"], inp["exc"], inp["params"], inp["amps"])
    elif k == "vqe-history":
        oracle_vqe_history(ctx, inp["L"], inp["init"], inp["ops"])
    elif k == "value-history":
        oracle_value_history(ctx, inp["n"], inp["strings"], inp["state"], inp["ops"])
    elif k == "qucc-history":
        oracle_qucc_history(ctx, inp["L"], inp["exc"], inp["plist"])
    elif k == "qucc-complex":
        oracle_qucc_complex(ctx, inp["L"], inp["exc"], inp["params"], inp["as"], inp.get("param_kind", ""))
    elif k == "cluster":
        T = lib_cluster(inp["L"], inp["kinds"], inp["params"])
        if np.abs(T - ref_cluster(inp["L"], inp["kinds"], inp["params"])).max() > 1e-12:
            ctx.fail("cluster", inp)
    hit = ctx.failing[before:]
    ctx.failing[before:] = []
    if hit:
        ctx.fail(sig, inp, data.get("expected"), "still fails: " + "; ".join(f["sig"] for f in hit))
