"""C15 - model Hamiltonians equal their lattice definitions and are Hermitian
(+ the Hamiltonian part of C16: is_hermitian() flags are sound)."""
import itertools, sys, os
import numpy as np
from scipy import sparse
from vlib import coqterm as ct

sys.path.insert(0, os.path.join(os.path.dirname(os.path.dirname(os.path.abspath(__file__))), "gen"))

HEADER = "From Qib Require Import Hamil.HamilCheck.\nFrom Coq Require Import QArith.\n"

# ------------------------------------------------------------------------------ lattices

def make_lattice(spec):
    import qib
    from qib.lattice import ShiftedLatticeConvention as SLC
    L = qib.lattice
    cls = spec["cls"]
    if cls == "IntegerLattice":
        return L.IntegerLattice(tuple(spec["shape"]), pbc=tuple(spec["pbc"]))
    if cls == "TriangularLattice":
        return L.TriangularLattice(tuple(spec["shape"]), pbc=tuple(spec["pbc"]))
    if cls == "OddFaceCenteredLattice":
        return L.OddFaceCenteredLattice(tuple(spec["shape"]), pbc=tuple(spec["pbc"]))
    if cls == "HexagonalLattice":
        return L.HexagonalLattice(tuple(spec["shape"]), convention=SLC[spec["convention"]])
    if cls == "BrickLattice":
        return L.BrickLattice(tuple(spec["shape"]), delete=spec["delete"], convention=SLC[spec["convention"]])
    if cls == "FullyConnectedLattice":
        return L.FullyConnectedLattice(tuple(spec["shape"]))
    if cls == "CustomizedLattice":
        return L.CustomizedLattice(tuple(spec["shape"]), np.array(spec["adj"], dtype=int))
    if cls == "LayeredLattice":
        return L.LayeredLattice(make_lattice(spec["base"]), spec["nlayers"])
    raise ValueError(cls)


def catalogue(rng, thorough):
    """every lattice class x small shapes x boundary conditions"""
    specs = []
    shapes1 = [(1,), (2,), (3,), (4,), (5,), (6,)] + ([(7,), (8,)] if thorough else [])
    shapes2 = [(1, 2), (2, 2), (2, 3), (3, 2), (1, 3), (3, 3)] + ([(2, 1), (3, 1), (2, 4), (4, 2), (1, 4)] if thorough else [])
    shapes3 = [(2, 2, 2)] + ([(1, 2, 2), (2, 1, 3)] if thorough else [])
    for sh in shapes1 + shapes2 + shapes3:
        for pbc in itertools.product([False, True], repeat=len(sh)):
            if len(sh) == 3 and not thorough and pbc not in ((False,) * 3, (True,) * 3, (True, False, True)):
                continue
            specs.append({"cls": "IntegerLattice", "shape": list(sh), "pbc": list(pbc)})
    for sh in [(2,), (3,), (2, 2), (2, 3), (3, 2), (3, 3), (1, 3)]:
        for pbc in itertools.product([False, True], repeat=len(sh)):
            specs.append({"cls": "TriangularLattice", "shape": list(sh), "pbc": list(pbc)})
    for sh in [(1, 1), (1, 2), (2, 1), (2, 2), (2, 3), (3, 2), (3, 3)]:
        for pbc in itertools.product([False, True], repeat=2):
            if any(p and n % 2 == 1 for p, n in zip(pbc, sh)):
                continue
            specs.append({"cls": "OddFaceCenteredLattice", "shape": list(sh), "pbc": list(pbc)})
    for conv in ("COLS_SHIFTED_UP", "ROWS_SHIFTED_LEFT"):
        for sh in [(1, 1), (1, 2), (2, 1)]:
            specs.append({"cls": "HexagonalLattice", "shape": list(sh), "convention": conv})
            for delete in (False, True):
                specs.append({"cls": "BrickLattice", "shape": list(sh), "delete": delete, "convention": conv})
    for sh in [(1,), (2,), (3,), (4,), (5,), (2, 2), (2, 3)]:
        specs.append({"cls": "FullyConnectedLattice", "shape": list(sh)})
    for n in [1, 2, 3, 4, 4, 5, 5, 6] + ([7, 8] if thorough else []):
        a = np.zeros((n, n), dtype=int)
        for i in range(n):
            for j in range(i + 1, n):
                if rng.random() < 0.45:
                    a[i, j] = a[j, i] = 1
        specs.append({"cls": "CustomizedLattice", "shape": [n], "adj": a.tolist()})
    # no edges at all
    specs.append({"cls": "CustomizedLattice", "shape": [3], "adj": np.zeros((3, 3), dtype=int).tolist()})
    bases = [{"cls": "IntegerLattice", "shape": [1], "pbc": [False]},
             {"cls": "IntegerLattice", "shape": [2], "pbc": [False]},
             {"cls": "IntegerLattice", "shape": [2], "pbc": [True]},
             {"cls": "IntegerLattice", "shape": [3], "pbc": [False]},
             {"cls": "IntegerLattice", "shape": [3], "pbc": [True]},
             {"cls": "IntegerLattice", "shape": [2, 2], "pbc": [False, False]},
             {"cls": "IntegerLattice", "shape": [2, 2], "pbc": [True, False]},
             {"cls": "TriangularLattice", "shape": [3], "pbc": [False]},
             {"cls": "FullyConnectedLattice", "shape": [3]},
             {"cls": "FullyConnectedLattice", "shape": [4]},
             {"cls": "IntegerLattice", "shape": [4], "pbc": [True]},
             {"cls": "IntegerLattice", "shape": [5], "pbc": [False]}]
    for b in bases:
        for nl in (1, 2, 3):
            specs.append({"cls": "LayeredLattice", "base": b, "nlayers": nl})
    return specs


def adjacency_ok(adj):
    """C14's conclusions, which C15 takes as hypotheses: 0/1, symmetric, zero diagonal"""
    a = np.asarray(adj).astype(int)
    return (a.ndim == 2 and a.shape[0] == a.shape[1] and set(np.unique(a)) <= {0, 1}
            and np.array_equal(a, a.T) and not a.diagonal().any())


def edge_list(adj):
    a = np.asarray(adj).astype(int)
    n = len(a)
    return [(i, j) for i in range(n) for j in range(i + 1, n) if a[i, j] != 0 or a[j, i] != 0]


# ------------------------------------------------------------------------------ numpy references
I2 = sparse.identity(2, format="csr", dtype=complex)
PAULI = {"X": sparse.csr_matrix(np.array([[0, 1], [1, 0]], dtype=complex)),
         "Y": sparse.csr_matrix(np.array([[0, -1j], [1j, 0]], dtype=complex)),
         "Z": sparse.csr_matrix(np.array([[1, 0], [0, -1]], dtype=complex))}
UP = sparse.csr_matrix(np.array([[0, 0], [1, 0]], dtype=complex))      # |1><0|


def kron_sites(L, ops):
    """site 0 = first Kronecker factor"""
    m = sparse.identity(1, format="csr", dtype=complex)
    for k in range(L):
        m = sparse.kron(m, ops.get(k, I2), format="csr")
    return m


def ref_spin(L, edges, pair_terms, site_terms):
    """sum_{(i,j) in edges} sum_{(w, P)} w P_i P_j + sum_i sum_{(w, P)} w P_i"""
    H = sparse.csr_matrix((2 ** L, 2 ** L), dtype=complex)
    for (i, j) in edges:
        for w, p in pair_terms:
            H = H + w * kron_sites(L, {i: PAULI[p], j: PAULI[p]})
    for i in range(L):
        for w, p in site_terms:
            H = H + w * kron_sites(L, {i: PAULI[p]})
    return H


def jw_ops(L):
    """c_i = I x ... x I x U x Z x ... x Z  (sign string on the later sites), a_i = c_i^dagger"""
    cs = [kron_sites(L, dict([(i, UP)] + [(k, PAULI["Z"]) for k in range(i + 1, L)])) for i in range(L)]
    return cs, [c.conj().T.tocsr() for c in cs]


def ref_hubbard(L, base_adj, t, u, spin):
    cs, as_ = jw_ops(L)
    H = sparse.csr_matrix((2 ** L, 2 ** L), dtype=complex)
    if spin:
        h = L // 2
        for (p, q) in edge_list(base_adj):
            for s in range(2):
                i, j = s * h + p, s * h + q
                H = H - t * (cs[i] @ as_[j] + cs[j] @ as_[i])
        for p in range(h):
            H = H + u * (cs[p] @ as_[p] @ cs[p + h] @ as_[p + h])
    else:
        for (i, j) in edge_list(base_adj):
            H = H - t * (cs[i] @ as_[j] + cs[j] @ as_[i])
            H = H + u * (cs[i] @ as_[i] @ cs[j] @ as_[j])
    N = sparse.csr_matrix((2 ** L, 2 ** L), dtype=complex)
    for i in range(L):
        N = N + cs[i] @ as_[i]
    return H, N


def ref_molecular(L, c, tk, vi):
    cs, as_ = jw_ops(L)
    H = c * sparse.identity(2 ** L, format="csr", dtype=complex)
    for i in range(L):
        for j in range(L):
            if tk[i, j] != 0:
                H = H + tk[i, j] * (cs[i] @ as_[j])
    for i, j, k, l in itertools.product(range(L), repeat=4):
        if vi[i, j, k, l] != 0:
            H = H + 0.5 * vi[i, j, k, l] * (cs[i] @ cs[j] @ as_[l] @ as_[k])
    return H


def dense(a):
    return np.asarray(a.toarray() if hasattr(a, "toarray") else a, dtype=complex)


def maxdiff(a, b):
    d = a - b
    if sparse.issparse(d):
        return abs(d).max() if d.nnz else 0.0
    return float(np.max(np.abs(d))) if np.size(d) else 0.0


TOL = 1e-12

# ------------------------------------------------------------------------------ Coq terms

def qv(x):
    return ct.qi(complex(x))


def adj_term(adj):
    a = np.asarray(adj).astype(int)
    return ct.lst([ct.lst([ct.b(v != 0) for v in row]) for row in a])


def qmat(m):
    return ct.lst([ct.lst([qv(c) for c in row]) for row in np.asarray(m)])


def q4(v):
    v = np.asarray(v)
    return ct.lst([ct.lst([ct.lst([ct.lst([qv(x) for x in c]) for c in b]) for b in a]) for a in v])


def ops_term(op):
    return ct.lst([ct.pair(ct.pair(ct.bits(w.paulis.z), ct.bits(w.paulis.x), ct.z(w.paulis.q)), qv(w.weight))
                   for w in op.pstrings])


def opt_mat(M):
    return "None" if M is None else ct.opt(qmat(dense(M)))


# ------------------------------------------------------------------------------ oracles (implementation only)
COUPLINGS = [0, 1, -1, 0.5, -1.5, 2, 0.25, -3, 0.625, -0.75, 4.0]


def spin_oracle(ctx, kind, spec, adj, H, params, desc, nmax):
    """string list = one string per edge / site with the stated weight; matrix = kron-built sum;
    Hermitian when it says so"""
    L = len(adj)
    edges = edge_list(adj)
    if kind == "ising":
        A, B = ("Z", "X") if params["conv"] == "ZZ" else ("X", "Z")
        pair_terms = [(params["J"], A)]
        site_terms = [(params["h"], A), (params["g"], B)]
    else:
        pair_terms = [(params["J"][k], p) for k, p in enumerate("XYZ")]
        site_terms = [(params["h"][k], p) for k, p in enumerate("XYZ")]
    op = H.as_pauli_operator()
    # expected weighted strings, independent of insertion order / merging
    zx = {"X": (0, 1), "Y": (1, 1), "Z": (1, 0)}
    exp = {}

    def put(sites, p, w):
        z = [0] * L
        x = [0] * L
        for s in sites:
            z[s], x[s] = zx[p]
        key = (tuple(z), tuple(x))
        exp[key] = exp.get(key, 0) + w
    for (i, j) in edges:
        for w, p in pair_terms:
            put((i, j), p, w)
    for i in range(L):
        for w, p in site_terms:
            put((i,), p, w)
    got = {}
    for w in op.pstrings:
        key = (tuple(int(v) for v in w.paulis.z), tuple(int(v) for v in w.paulis.x))
        if w.paulis.q != 0 or key in got:
            ctx.fail(kind + ":string-list-malformed", desc, "distinct strings with q = 0", str(w))
        got[key] = got.get(key, 0) + w.weight
    if got != exp:
        ctx.fail(kind + ":strings-not-one-per-edge-and-site", desc,
                 "%d edge strings + site strings with the stated weights" % len(edges),
                 "%d strings; first differing: %r" % (len(got), sorted(set(got.items()) ^ set(exp.items()))[:2]))
    if L <= nmax:
        M = H.as_matrix()
        R = ref_spin(L, edges, pair_terms, site_terms)
        if maxdiff(M, R) > TOL:
            ctx.fail(kind + ":matrix-not-edge-sum-plus-fields", desc, "sum over edges once + fields", "max |diff| = %g" % maxdiff(M, R))
        if H.is_hermitian() and maxdiff(M, M.conj().T) > TOL:
            ctx.fail(kind + ":hermitian-flag-unsound", desc, "H = H^dagger", "max |diff| = %g" % maxdiff(M, M.conj().T))
        return M
    return None


def hubbard_oracle(ctx, spec, adj, H, t, u, spin, desc, nmax):
    L = len(adj)
    if L > nmax:
        return None
    base = np.asarray(adj)[:L // 2, :L // 2] if spin else adj
    M = H.as_matrix()
    R, N = ref_hubbard(L, base, t, u, spin)
    if maxdiff(M, R) > TOL:
        ctx.fail("hubbard:matrix-not-definition", desc, "-t hopping over edges (per layer) + u density-density",
                 "max |diff| = %g" % maxdiff(M, R))
    if H.is_hermitian() and maxdiff(M, M.conj().T) > TOL:
        ctx.fail("hubbard:hermitian-flag-unsound", desc, "H = H^dagger", "max |diff| = %g" % maxdiff(M, M.conj().T))
    if maxdiff(M @ N, N @ M) > TOL:
        ctx.fail("hubbard:number-not-conserved", desc, "[H, N] = 0", "max |diff| = %g" % maxdiff(M @ N, N @ M))
    return M


def mol_expected_accept(c, tk, vi, herm, varch):
    ok = True
    if herm:
        ok &= isinstance(c, (int, float))
        ok &= np.array_equal(tk, tk.conj().T)
        ok &= np.array_equal(vi, vi.conj().transpose(2, 3, 0, 1))
    if varch:
        ok &= np.array_equal(vi, vi.transpose(1, 0, 3, 2))
    return bool(ok)


def molecular_oracle(ctx, L, c, tk, vi, herm, varch, desc):
    """returns (H or None, matrix or None)"""
    import qib
    from qib.operator import MolecularHamiltonian, MolecularHamiltonianSymmetry as MS
    symm = MS(0)
    if herm:
        symm |= MS.HERMITIAN
    if varch:
        symm |= MS.VARCHANGE
    field = qib.field.Field(qib.field.ParticleType.FERMION, qib.lattice.FullyConnectedLattice((L,)))
    want = mol_expected_accept(c, tk, vi, herm, varch)
    try:
        H = MolecularHamiltonian(field, c, tk, vi, symm)
        acc = True
    except ValueError:
        H, acc = None, False
    if acc != want:
        ctx.fail("molecular:constructor-accepts-iff-symmetric", desc, want, acc)
    if H is None:
        return None, None
    M = H.as_matrix()
    R = ref_molecular(L, c, tk, vi)
    if maxdiff(M, R) > TOL:
        ctx.fail("molecular:matrix-not-definition", desc, "c + sum t a+a + 1/2 sum v a+_i a+_j a_l a_k",
                 "max |diff| = %g" % maxdiff(M, R))
    if H.is_hermitian() != bool(herm):
        ctx.fail("molecular:is-hermitian-not-the-declared-symmetry", desc, bool(herm), H.is_hermitian())
    if H.is_hermitian() and maxdiff(M, M.conj().T) > TOL:
        ctx.fail("molecular:hermitian-flag-unsound", desc, "H = H^dagger", "max |diff| = %g" % maxdiff(M, M.conj().T))
    return H, M


def term_flags(ctx, kind, fop, L, desc, nmax):
    """FieldOperatorTerm.is_hermitian of every term; oracle: a term that says so has a Hermitian matrix"""
    from qib.operator import FieldOperator
    flags = []
    for k, tm in enumerate(fop.terms):
        f = bool(tm.is_hermitian())
        flags.append(f)
        if f and L <= nmax and tm.opdesc:
            M = FieldOperator([tm]).as_matrix()
            if maxdiff(M, M.conj().T) > TOL:
                ctx.fail(kind + ":term-hermitian-flag-unsound", dict(desc, term=k), "term matrix = its adjoint",
                         "max |diff| = %g" % maxdiff(M, M.conj().T))
    try:
        whole = fop.is_hermitian()
    except NotImplementedError:
        whole = None
    if whole is not None and not all(flags):
        ctx.fail(kind + ":operator-hermitian-flag-not-from-terms", desc, "NotImplementedError", whole)
    return flags


# ------------------------------------------------------------------------------ builders

def build_spin(kind, spec, params):
    import qib
    latt = make_lattice(spec)
    field = qib.field.Field(qib.field.ParticleType.QUBIT, latt)
    if kind == "ising":
        conv = qib.operator.IsingConvention.ISING_ZZ if params["conv"] == "ZZ" else qib.operator.IsingConvention.ISING_XX
        return latt, qib.operator.IsingHamiltonian(field, params["J"], params["h"], params["g"], conv)
    return latt, qib.operator.HeisenbergHamiltonian(field, params["J"], params["h"])


def build_hubbard(spec, t, u, spin):
    import qib
    latt = make_lattice(spec)
    field = qib.field.Field(qib.field.ParticleType.FERMION, latt)
    return latt, qib.operator.FermiHubbardHamiltonian(field, t, u, spin=spin)


def rand_cplx(rng, real=False):
    re_ = rng.choice([0, 0, 1, -1, 0.5, -0.25, 2, 0.75])
    im_ = 0 if real else rng.choice([0, 0, 1, -1, 0.5, -0.5])
    return complex(re_, im_)


def rand_molecular(rng, L, herm, varch, style):
    """dyadic complex tensors; style: 'sym' (symmetrised as declared), 'raw', 'perturbed'"""
    tk = np.array([[rand_cplx(rng) for _ in range(L)] for _ in range(L)], dtype=complex)
    vi = np.array([rand_cplx(rng) if rng.random() < 0.6 else 0
                   for _ in range(L ** 4)], dtype=complex).reshape((L,) * 4)
    c = rng.choice([0, 1, -2, 0.5, -1.25, 3.0])
    if style in ("sym", "perturbed"):
        if herm:
            tk = tk + tk.conj().T
            vi = vi + vi.conj().transpose(2, 3, 0, 1)
        if varch:
            vi = vi + vi.transpose(1, 0, 3, 2)
    if style == "perturbed" and L >= 1:
        which = rng.choice(["t", "v", "c"])
        if which == "t":
            i, j = rng.randrange(L), rng.randrange(L)
            tk[i, j] += 0.5j if i == j else 0.5
        elif which == "v":
            idx = tuple(rng.randrange(L) for _ in range(4))
            vi[idx] += 0.25 + (0.5j if rng.random() < 0.5 else 0)
        else:
            c = complex(c, rng.choice([0.5, 0.0]))
    elif rng.random() < 0.15:
        c = complex(c, 0.5)
    return c, tk, vi


# ------------------------------------------------------------------------------ run

def run(ctx):
    import qib
    import hamil as gen_hamil
    ctx.trusted.append(
        "C15: regenerated from /repo on every run (gen/hamil.py): the loop nests of Ising/Heisenberg as_pauli_operator, "
        "the Hubbard coefficient-tensor construction, MolecularHamiltonian's symmetry checks, is_hermitian bodies and "
        "as_field_operator. Hand-modelled and tied by correspondence: PauliString.from_single_paulis / PauliOperator (C09 model), "
        "FieldOperator.as_matrix (Jordan-Wigner kron loop, modelled as structural Kronecker products; zero-coefficient skipping "
        "is a no-op in exact arithmetic), numpy kron/identity/zeros/transpose/conj/.T as their index formulas")
    ctx.assumes.append("adjacency_matrix() is 0/1, symmetric with zero diagonal (C14's conclusion) - inputs violating it are "
                       "skipped and counted; couplings are ring elements (exact arithmetic, dyadic test data); numpy.allclose in "
                       "MolecularHamiltonian.__init__ / FieldOperatorTerm.is_hermitian is modelled as exact equality, so those "
                       "Hermiticity flags are sound up to rtol=1e-5/atol=1e-8; isinstance(c,(int,float)) is taken to mean c is real")
    nmat_coq = 5 if ctx.thorough else 4
    nmat_np = 10 if ctx.thorough else 8
    ctx.rules.append("every lattice class (Integer, Triangular, OddFaceCentered, Hexagonal, Brick, FullyConnected, Customized, "
                     "Layered) x small shapes x all boundary-condition combinations, adjacency_matrix() of the implementation as "
                     "input; dyadic couplings incl. 0 and negative; both Ising conventions; Hubbard spinless on every lattice and "
                     "spinful on every 2-layer lattice; molecular tensors on 1..4 orbitals with/without the declared symmetries. "
                     "Model matrices compared for <= %d sites, numpy oracle for <= %d sites. "
                     "non-trivial = lattice with at least one edge and a non-zero coupling (molecular: a non-zero two-body tensor)"
                     % (nmat_coq + 1, nmat_np))
    ctx.lib(["Hamil/HamilCheck", "Hamil/HamilProofs2"])
    if ctx.translate("GenHamil", gen_hamil.generate):
        ctx.props()
    else:
        ctx.oblige("props:C15", "theorem", False, "not compiled: translator failed")

    rng = ctx.rng
    cases = []

    def add(term, desc, nontrivial=True):
        cases.append((term, desc))
        if nontrivial:
            ctx.nontriv(desc)
        ctx.sample(desc)

    def pick():
        return rng.choice(COUPLINGS)

    specs = catalogue(rng, ctx.thorough)
    nspin_max = 12 if ctx.thorough else 10
    for spec in specs:
        try:
            latt = make_lattice(spec)
            adj = np.asarray(latt.adjacency_matrix())
            L = latt.nsites
        except Exception as e:
            ctx.count("lattice_construction_failed_" + type(e).__name__)
            continue
        if not adjacency_ok(adj) or adj.shape != (L, L):
            ctx.count("skipped_adjacency_violates_C14_" + spec["cls"])
            continue
        ctx.count("lattice_" + spec["cls"])
        ctx.count("nsites=%d" % L)
        nedges = len(edge_list(adj))

        # ------------------------------------------------------------ Ising, both conventions
        if L <= nspin_max:
            for conv in ("ZZ", "XX"):
                params = {"J": pick(), "h": pick(), "g": pick(), "conv": conv}
                if rng.random() < 0.3:
                    params["J"] = rng.choice([1, -2, 0.5])
                desc = {"kind": "ising", "lattice": spec, **params}
                try:
                    _, H = build_spin("ising", spec, params)
                    M = spin_oracle(ctx, "ising", spec, adj, H, params, desc, nmat_np)
                    op = H.as_pauli_operator()
                except Exception as e:
                    ctx.fail("ising:exception", desc, "a Hamiltonian", repr(e))
                    continue
                add("CIsing %s %s %s %s %s %s %s %s" % (
                    ct.nat(L), adj_term(adj), qv(params["J"]), qv(params["h"]), qv(params["g"]), ct.b(conv == "ZZ"),
                    ops_term(op), opt_mat(M if (M is not None and L <= nmat_coq) else None)),
                    desc, nedges > 0 and params["J"] != 0)
            # -------------------------------------------------------- Heisenberg
            for rep in range(2 if (L <= 4 or ctx.thorough) else 1):
                params = {"J": [pick(), pick(), pick()], "h": [pick(), pick(), pick()]}
                if rep == 1 or rng.random() < 0.25:
                    params["J"][rng.randrange(3)] = 0          # a vanishing component
                desc = {"kind": "heisenberg", "lattice": spec, **params}
                try:
                    _, H = build_spin("heisenberg", spec, params)
                    M = spin_oracle(ctx, "heisenberg", spec, adj, H, params, desc, nmat_np)
                    op = H.as_pauli_operator()
                except Exception as e:
                    ctx.fail("heisenberg:exception", desc, "a Hamiltonian", repr(e))
                    continue
                add("CHeis %s %s %s %s %s %s" % (
                    ct.nat(L), adj_term(adj), ct.lst([qv(v) for v in params["J"]]), ct.lst([qv(v) for v in params["h"]]),
                    ops_term(op), opt_mat(M if (M is not None and L <= nmat_coq) else None)),
                    desc, nedges > 0 and any(params["J"]))

        # ------------------------------------------------------------ Fermi-Hubbard
        is_layered = spec["cls"] == "LayeredLattice"
        modes = [False]
        if is_layered:
            modes.append(True)
        for spin, rep in [(m, r) for m in modes for r in range(3 if m else 1)]:
            if L > nmat_np:
                continue
            t, u = float(pick()), float(pick())
            if rep == 1:
                u = -abs(u) - 0.5                              # attractive interaction
            desc = {"kind": "hubbard", "lattice": spec, "t": t, "u": u, "spin": spin}
            expect_refusal = spin and spec["nlayers"] != 2
            try:
                _, H = build_hubbard(spec, t, u, spin)
            except ValueError as e:
                if not expect_refusal:
                    ctx.fail("hubbard:unexpected-refusal", desc, "a Hamiltonian", repr(e))
                ctx.count("hubbard_refused")
                continue
            if expect_refusal:
                ctx.fail("hubbard:spinful-accepts-non-bilayer", desc, "ValueError", "accepted")
                continue
            try:
                M = hubbard_oracle(ctx, spec, adj, H, t, u, spin, desc, nmat_np)
                fop = H.as_field_operator()
                kin, inter = np.asarray(fop.terms[0].coeffs), np.asarray(fop.terms[1].coeffs)
                flags = term_flags(ctx, "hubbard", fop, L, desc, nmat_np)
                pats = [[d.otype.name for d in tm.opdesc] for tm in fop.terms]
            except Exception as e:
                ctx.fail("hubbard:exception", desc, "a field operator", repr(e))
                continue
            if pats != [["FERMI_CREATE", "FERMI_ANNIHIL"], ["FERMI_CREATE", "FERMI_ANNIHIL"] * 2] or len(fop.terms) != 2:
                ctx.fail("hubbard:operator-pattern", desc, "[c a], [c a c a]", pats)
            nz = [ct.pair(ct.lst([ct.nat(i) for i in idx]), qv(inter[idx])) for idx in zip(*np.nonzero(inter))]
            ctx.count("hubbard_%s" % ("spinful" if spin else "spinless"))
            add("CHub %s %s %s %s %s %s %s %s %s" % (
                ct.nat(L), adj_term(adj), qv(t), qv(u), ct.b(spin), qmat(kin), ct.lst(nz), ct.lst([ct.b(f) for f in flags]),
                opt_mat(M if (M is not None and L <= nmat_coq + 1) else None)),
                desc, nedges > 0 and (t != 0 or u != 0))
        # spin=True on a lattice that is not layered must be refused
        if not is_layered and L <= 4:
            desc = {"kind": "hubbard", "lattice": spec, "t": 1.0, "u": 1.0, "spin": True}
            try:
                build_hubbard(spec, 1.0, 1.0, True)
                ctx.fail("hubbard:spinful-accepts-non-bilayer", desc, "ValueError", "accepted")
            except ValueError:
                ctx.count("hubbard_refused")

    ctx.log('lattice sweep done, %d cases' % len(cases))
    # ---------------------------------------------------------------- molecular Hamiltonian
    nmol = 90 if ctx.thorough else 36
    for k in range(nmol):
        L = [1, 2, 2, 3, 3, 4][k % 6] if not (ctx.thorough and k % 15 == 14) else 5
        herm, varch = bool(k & 1), bool(k & 2)
        style = ["sym", "sym", "perturbed", "raw"][(k // 4) % 4]
        c, tk, vi = rand_molecular(rng, L, herm, varch, style)
        desc = {"kind": "molecular", "L": L, "c": repr(c), "tkin": [[repr(complex(x)) for x in r] for r in tk],
                "vint": [repr(complex(x)) for x in vi.reshape(-1)], "herm": herm, "varch": varch}
        try:
            H, M = molecular_oracle(ctx, L, c, tk, vi, herm, varch, desc)
        except Exception as e:
            ctx.fail("molecular:exception", desc, "accept or ValueError", repr(e))
            continue
        ctx.count("molecular_%s_%s" % (style, "accepted" if H is not None else "refused"))
        if H is None:
            res = "None"
        else:
            fop = H.as_field_operator()
            pats = [[d.otype.name for d in tm.opdesc] for tm in fop.terms]
            if pats != [[], ["FERMI_CREATE", "FERMI_ANNIHIL"], ["FERMI_CREATE"] * 2 + ["FERMI_ANNIHIL"] * 2]:
                ctx.fail("molecular:operator-pattern", desc, "[], [c a], [c c a a]", pats)
            flags = term_flags(ctx, "molecular", fop, L, desc, 4)
            res = ct.opt(ct.pair(ct.b(H.is_hermitian()), qv(complex(fop.terms[0].coeffs)),
                                 qmat(fop.terms[1].coeffs), q4(fop.terms[2].coeffs), ct.lst([ct.b(f) for f in flags])))
        add("CMol %s %s %s %s %s %s %s %s %s %s" % (
            ct.nat(L), ct.nat(L), qv(c), ct.b(isinstance(c, (int, float))), qmat(tk), q4(vi), ct.b(herm), ct.b(varch),
            res, opt_mat(M if (M is not None and L <= 4) else None)),
            desc, bool(np.any(vi != 0)))
    # lattice size mismatch is refused
    try:
        field = qib.field.Field(qib.field.ParticleType.FERMION, qib.lattice.FullyConnectedLattice((3,)))
        qib.operator.MolecularHamiltonian(field, 0.0, np.zeros((2, 2)), np.zeros((2, 2, 2, 2)),
                                          qib.operator.MolecularHamiltonianSymmetry(0))
        ctx.fail("molecular:accepts-wrong-lattice-size", {"kind": "molecular-size"}, "ValueError", "accepted")
    except ValueError:
        z2 = qmat(np.zeros((2, 2)))
        add("CMol %s %s %s true %s %s false false None None" % (ct.nat(2), ct.nat(3), qv(0), z2, q4(np.zeros((2,) * 4))),
            {"kind": "molecular-size"}, False)

    ctx.log('molecular done, %d cases' % len(cases))
    dis = ctx.cases("hamil", HEADER, cases, shard=40)
    ctx.log('model evaluation done')
    for i, d in dis[:5]:
        ctx.log("model/impl disagree on", {k: v for k, v in d.items() if k not in ("tkin", "vint")})


# ------------------------------------------------------------------------------ replay

def replay(ctx, data):
    inp, sig = data["input"], data["sig"]
    before = len(ctx.failing)
    kind = inp.get("kind")
    if kind in ("ising", "heisenberg"):
        latt = make_lattice(inp["lattice"])
        adj = np.asarray(latt.adjacency_matrix())
        params = {k: inp[k] for k in ("J", "h", "g", "conv") if k in inp}
        _, H = build_spin(kind, inp["lattice"], params)
        spin_oracle(ctx, kind, inp["lattice"], adj, H, params, inp, 10)
    elif kind == "hubbard":
        latt = make_lattice(inp["lattice"])
        adj = np.asarray(latt.adjacency_matrix())
        try:
            _, H = build_hubbard(inp["lattice"], inp["t"], inp["u"], inp["spin"])
            if sig == "hubbard:spinful-accepts-non-bilayer":
                ctx.fail(sig, inp, "ValueError", "accepted")
            else:
                hubbard_oracle(ctx, inp["lattice"], adj, H, inp["t"], inp["u"], inp["spin"], inp, 10)
        except ValueError as e:
            if sig == "hubbard:unexpected-refusal":
                ctx.fail(sig, inp, "a Hamiltonian", repr(e))
    elif kind == "molecular":
        L = inp["L"]
        c = complex(inp["c"]) if inp["c"].startswith("(") or "j" in inp["c"] else float(inp["c"])
        if isinstance(c, float) and c == int(c) and "." not in inp["c"]:
            c = int(c)
        tk = np.array([[complex(x) for x in r] for r in inp["tkin"]], dtype=complex).reshape((L, L))
        vi = np.array([complex(x) for x in inp["vint"]], dtype=complex).reshape((L,) * 4)
        molecular_oracle(ctx, L, c, tk, vi, inp["herm"], inp["varch"], inp)
    # a replay reports under the recorded signature
    if len(ctx.failing) > before:
        ctx.failing[before:] = [dict(ctx.failing[before], sig=sig)]
