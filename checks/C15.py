"""C15 - model Hamiltonians equal their lattice definitions and are Hermitian
(+ the Hamiltonian part of C16: is_hermitian() flags are sound)."""
import itertools, sys, os
import numpy as np
from scipy import sparse
from vlib import coqterm as ct

sys.path.insert(0, os.path.join(os.path.dirname(os.path.dirname(os.path.abspath(__file__))), "gen"))

HEADER = "From Qib Require Import Hamil.HamilCheck.\nFrom Coq Require Import QArith.\n"

# ------------------------------------------------------------------------------ lattices

_USER_LATTICE = []


def user_lattice_class():
    """A user-defined lattice (AbstractLattice is the public extension point): sites on a line, neighbours given by a
    symmetric 0/1 matrix with zero diagonal; adjacency_matrix() returns the array the object stores - as
    CustomizedLattice did before /repo 60857f4, and as AbstractLattice's contract allows.  A Hamiltonian that writes
    into the array it gets from adjacency_matrix() corrupts such a lattice."""
    if not _USER_LATTICE:
        from qib.lattice import AbstractLattice

        class StoredAdjacencyLattice(AbstractLattice):
            def __init__(self, adj):
                self.adj = np.array(adj, dtype=int)
                self.shape = (len(self.adj),)

            @property
            def nsites(self):
                return len(self.adj)

            @property
            def ndim(self):
                return 1

            def adjacency_matrix(self):
                return self.adj

            def index_to_coord(self, i):
                return (i,)

            def coord_to_index(self, c):
                return int(c[0])
        _USER_LATTICE.append(StoredAdjacencyLattice)
    return _USER_LATTICE[0]


def make_lattice(spec, keep=None):
    """keep: optional dict; receives every array handed to a lattice constructor (caller-owned)"""
    import qib
    from qib.lattice import ShiftedLatticeConvention as SLC
    L = qib.lattice
    cls = spec["cls"]
    if cls == "IntegerLattice":
        return L.IntegerLattice(tuple(spec["shape"]), pbc=tuple(spec["pbc"]))
    if cls == "TriangularLattice":
        return L.TriangularLattice(tuple(spec["shape"]), pbc=tuple(spec["pbc"]))
    if cls == "OddFaceCenteredLattice":
        return L.OddFaceCenteredLattice(tuple(spec["shape"]), pbc=tuple(spec["pbc"]))
    if cls == "HexagonalLattice":
        return L.HexagonalLattice(tuple(spec["shape"]), convention=SLC[spec["convention"]])
    if cls == "BrickLattice":
        return L.BrickLattice(tuple(spec["shape"]), delete=spec["delete"], convention=SLC[spec["convention"]])
    if cls == "FullyConnectedLattice":
        return L.FullyConnectedLattice(tuple(spec["shape"]))
    if cls == "CustomizedLattice":
        a = np.array(spec["adj"], dtype=int)
        if keep is not None:
            keep["CustomizedLattice.adj"] = a
        return L.CustomizedLattice(tuple(spec["shape"]), a)
    if cls == "StoredAdjacencyLattice":
        a = np.array(spec["adj"], dtype=int)
        if keep is not None:
            keep["StoredAdjacencyLattice.adj"] = a
        return user_lattice_class()(a)
    if cls == "LayeredLattice":
        return L.LayeredLattice(make_lattice(spec["base"], keep), spec["nlayers"])
    raise ValueError(cls)


TRIANGLE_TAIL = [[0, 1, 1, 0], [1, 0, 1, 0], [1, 1, 0, 1], [0, 0, 1, 0]]      # triangle with a dangling site


def catalogue(rng, thorough):
    """every lattice class x small shapes x boundary conditions"""
    specs = []
    shapes1 = [(1,), (2,), (3,), (4,), (5,), (6,)] + ([(7,), (8,)] if thorough else [])
    shapes2 = [(1, 2), (2, 2), (2, 3), (3, 2), (1, 3), (3, 3)] + ([(2, 1), (3, 1), (2, 4), (4, 2), (1, 4)] if thorough else [])
    shapes3 = [(2, 2, 2)] + ([(1, 2, 2), (2, 1, 3)] if thorough else [])
    for sh in shapes1 + shapes2 + shapes3:
        for pbc in itertools.product([False, True], repeat=len(sh)):
            if len(sh) == 3 and not thorough and pbc not in ((False,) * 3, (True,) * 3, (True, False, True)):
                continue
            specs.append({"cls": "IntegerLattice", "shape": list(sh), "pbc": list(pbc)})
    for sh in [(2,), (3,), (2, 2), (2, 3), (3, 2), (3, 3), (1, 3)]:
        for pbc in itertools.product([False, True], repeat=len(sh)):
            specs.append({"cls": "TriangularLattice", "shape": list(sh), "pbc": list(pbc)})
    for sh in [(1, 1), (1, 2), (2, 1), (2, 2), (2, 3), (3, 2), (3, 3)]:
        for pbc in itertools.product([False, True], repeat=2):
            if any(p and n % 2 == 1 for p, n in zip(pbc, sh)):
                continue
            specs.append({"cls": "OddFaceCenteredLattice", "shape": list(sh), "pbc": list(pbc)})
    for conv in ("COLS_SHIFTED_UP", "ROWS_SHIFTED_LEFT"):
        for sh in [(1, 1), (1, 2), (2, 1)]:
            specs.append({"cls": "HexagonalLattice", "shape": list(sh), "convention": conv})
            for delete in (False, True):
                specs.append({"cls": "BrickLattice", "shape": list(sh), "delete": delete, "convention": conv})
    for sh in [(1,), (2,), (3,), (4,), (5,), (2, 2), (2, 3)]:
        specs.append({"cls": "FullyConnectedLattice", "shape": list(sh)})
    for n in [1, 2, 3, 4, 4, 5, 5, 6] + ([7, 8] if thorough else []):
        a = np.zeros((n, n), dtype=int)
        for i in range(n):
            for j in range(i + 1, n):
                if rng.random() < 0.45:
                    a[i, j] = a[j, i] = 1
        specs.append({"cls": "CustomizedLattice", "shape": [n], "adj": a.tolist()})
    # no edges at all
    specs.append({"cls": "CustomizedLattice", "shape": [3], "adj": np.zeros((3, 3), dtype=int).tolist()})
    # user-defined AbstractLattice subclass that returns its stored adjacency array
    specs.append({"cls": "StoredAdjacencyLattice", "adj": TRIANGLE_TAIL})
    specs.append({"cls": "StoredAdjacencyLattice", "adj": [[0, 1, 0], [1, 0, 1], [0, 1, 0]]})
    bases = [{"cls": "IntegerLattice", "shape": [1], "pbc": [False]},
             {"cls": "IntegerLattice", "shape": [2], "pbc": [False]},
             {"cls": "IntegerLattice", "shape": [2], "pbc": [True]},
             {"cls": "IntegerLattice", "shape": [3], "pbc": [False]},
             {"cls": "IntegerLattice", "shape": [3], "pbc": [True]},
             {"cls": "IntegerLattice", "shape": [2, 2], "pbc": [False, False]},
             {"cls": "IntegerLattice", "shape": [2, 2], "pbc": [True, False]},
             {"cls": "TriangularLattice", "shape": [3], "pbc": [False]},
             {"cls": "FullyConnectedLattice", "shape": [3]},
             {"cls": "FullyConnectedLattice", "shape": [4]},
             {"cls": "IntegerLattice", "shape": [4], "pbc": [True]},
             {"cls": "IntegerLattice", "shape": [5], "pbc": [False]},
             {"cls": "CustomizedLattice", "shape": [3], "adj": [[0, 1, 1], [1, 0, 0], [1, 0, 0]]},
             {"cls": "CustomizedLattice", "shape": [4], "adj": [[0, 1, 1, 0], [1, 0, 1, 0], [1, 1, 0, 1], [0, 0, 1, 0]]},
             {"cls": "StoredAdjacencyLattice", "adj": [[0, 1, 0], [1, 0, 1], [0, 1, 0]]}]
    for b in bases:
        for nl in (1, 2, 3):
            specs.append({"cls": "LayeredLattice", "base": b, "nlayers": nl})
    return specs


def adjacency_ok(adj):
    """C14's conclusions, which C15 takes as hypotheses: 0/1, symmetric, zero diagonal"""
    a = np.asarray(adj).astype(int)
    return (a.ndim == 2 and a.shape[0] == a.shape[1] and set(np.unique(a)) <= {0, 1}
            and np.array_equal(a, a.T) and not a.diagonal().any())


def edge_list(adj):
    a = np.asarray(adj).astype(int)
    n = len(a)
    return [(i, j) for i in range(n) for j in range(i + 1, n) if a[i, j] != 0 or a[j, i] != 0]


# ------------------------------------------------------------------------------ numpy references
I2 = sparse.identity(2, format="csr", dtype=complex)
PAULI = {"X": sparse.csr_matrix(np.array([[0, 1], [1, 0]], dtype=complex)),
         "Y": sparse.csr_matrix(np.array([[0, -1j], [1j, 0]], dtype=complex)),
         "Z": sparse.csr_matrix(np.array([[1, 0], [0, -1]], dtype=complex))}
UP = sparse.csr_matrix(np.array([[0, 0], [1, 0]], dtype=complex))      # |1><0|


def kron_sites(L, ops):
    """site 0 = first Kronecker factor"""
    m = sparse.identity(1, format="csr", dtype=complex)
    for k in range(L):
        m = sparse.kron(m, ops.get(k, I2), format="csr")
    return m


_SITE_OP = {}


def site_op(L, i, p):
    """P at site i, identity elsewhere (cached: the references are rebuilt for many couplings on the same sizes)"""
    key = (L, i, p)
    if key not in _SITE_OP:
        _SITE_OP[key] = kron_sites(L, {i: PAULI[p]})
    return _SITE_OP[key]


def ref_spin(L, edges, pair_terms, site_terms):
    """sum_{(i,j) in edges} sum_{(w, P)} w P_i P_j + sum_i sum_{(w, P)} w P_i"""
    H = sparse.csr_matrix((2 ** L, 2 ** L), dtype=complex)
    for (i, j) in edges:
        for w, p in pair_terms:
            if w != 0:
                H = H + w * (site_op(L, i, p) @ site_op(L, j, p))
    for i in range(L):
        for w, p in site_terms:
            if w != 0:
                H = H + w * site_op(L, i, p)
    return H


_JW = {}


def jw_ops(L):
    """c_i = I x ... x I x U x Z x ... x Z  (sign string on the later sites), a_i = c_i^dagger"""
    if L not in _JW:
        cs = [kron_sites(L, dict([(i, UP)] + [(k, PAULI["Z"]) for k in range(i + 1, L)])) for i in range(L)]
        _JW[L] = (cs, [c.conj().T.tocsr() for c in cs])
    return _JW[L]


def ref_hubbard(L, base_adj, t, u, spin):
    cs, as_ = jw_ops(L)
    H = sparse.csr_matrix((2 ** L, 2 ** L), dtype=complex)
    if spin:
        h = L // 2
        for (p, q) in edge_list(base_adj):
            for s in range(2):
                i, j = s * h + p, s * h + q
                H = H - t * (cs[i] @ as_[j] + cs[j] @ as_[i])
        for p in range(h):
            H = H + u * (cs[p] @ as_[p] @ cs[p + h] @ as_[p + h])
    else:
        for (i, j) in edge_list(base_adj):
            H = H - t * (cs[i] @ as_[j] + cs[j] @ as_[i])
            H = H + u * (cs[i] @ as_[i] @ cs[j] @ as_[j])
    N = sparse.csr_matrix((2 ** L, 2 ** L), dtype=complex)
    for i in range(L):
        N = N + cs[i] @ as_[i]
    return H, N


def ref_molecular(L, c, tk, vi):
    cs, as_ = jw_ops(L)
    H = c * sparse.identity(2 ** L, format="csr", dtype=complex)
    for i in range(L):
        for j in range(L):
            if tk[i, j] != 0:
                H = H + tk[i, j] * (cs[i] @ as_[j])
    for i, j, k, l in itertools.product(range(L), repeat=4):
        if vi[i, j, k, l] != 0:
            H = H + 0.5 * vi[i, j, k, l] * (cs[i] @ cs[j] @ as_[l] @ as_[k])
    return H


def dense(a):
    return np.asarray(a.toarray() if hasattr(a, "toarray") else a, dtype=complex)


def maxdiff(a, b):
    d = a - b
    if sparse.issparse(d):
        return abs(d).max() if d.nnz else 0.0
    return float(np.max(np.abs(d))) if np.size(d) else 0.0


TOL = 1e-12

# ------------------------------------------------------------------------------ Coq terms

def qv(x):
    return ct.qi(complex(x))


def adj_term(adj):
    a = np.asarray(adj).astype(int)
    return ct.lst([ct.lst([ct.b(v != 0) for v in row]) for row in a])


def qmat(m):
    return ct.lst([ct.lst([qv(c) for c in row]) for row in np.asarray(m)])


def q4(v):
    v = np.asarray(v)
    return ct.lst([ct.lst([ct.lst([ct.lst([qv(x) for x in c]) for c in b]) for b in a]) for a in v])


def ops_term(op):
    return ct.lst([ct.pair(ct.pair(ct.bits(w.paulis.z), ct.bits(w.paulis.x), ct.z(w.paulis.q)), qv(w.weight))
                   for w in op.pstrings])


def opt_mat(M):
    return "None" if M is None else ct.opt(qmat(dense(M)))


# ------------------------------------------------------------------------------ oracles (implementation only)
COUPLINGS = [0, 1, -1, 0.5, -1.5, 2, 0.25, -3, 0.625, -0.75, 4.0]


def spin_oracle(ctx, kind, spec, adj, H, params, desc, nmax):
    """string list = one string per edge / site with the stated weight; matrix = kron-built sum;
    Hermitian when it says so"""
    L = len(adj)
    edges = edge_list(adj)
    if kind == "ising":
        A, B = ("Z", "X") if params["conv"] == "ZZ" else ("X", "Z")
        pair_terms = [(params["J"], A)]
        site_terms = [(params["h"], A), (params["g"], B)]
    else:
        pair_terms = [(params["J"][k], p) for k, p in enumerate("XYZ")]
        site_terms = [(params["h"][k], p) for k, p in enumerate("XYZ")]
    op = H.as_pauli_operator()
    # expected weighted strings, independent of insertion order / merging
    zx = {"X": (0, 1), "Y": (1, 1), "Z": (1, 0)}
    exp = {}

    def put(sites, p, w):
        z = [0] * L
        x = [0] * L
        for s in sites:
            z[s], x[s] = zx[p]
        key = (tuple(z), tuple(x))
        exp[key] = exp.get(key, 0) + w
    for (i, j) in edges:
        for w, p in pair_terms:
            put((i, j), p, w)
    for i in range(L):
        for w, p in site_terms:
            put((i,), p, w)
    got = {}
    for w in op.pstrings:
        key = (tuple(int(v) for v in w.paulis.z), tuple(int(v) for v in w.paulis.x))
        if w.paulis.q != 0 or key in got:
            ctx.fail(kind + ":string-list-malformed", desc, "distinct strings with q = 0", str(w))
        got[key] = got.get(key, 0) + w.weight
    if got != exp:
        ctx.fail(kind + ":strings-not-one-per-edge-and-site", desc,
                 "%d edge strings + site strings with the stated weights" % len(edges),
                 "%d strings; first differing: %r" % (len(got), sorted(set(got.items()) ^ set(exp.items()))[:2]))
    if L <= nmax:
        M = H.as_matrix()
        R = ref_spin(L, edges, pair_terms, site_terms)
        if maxdiff(M, R) > TOL:
            ctx.fail(kind + ":matrix-not-edge-sum-plus-fields", desc, "sum over edges once + fields", "max |diff| = %g" % maxdiff(M, R))
        if H.is_hermitian() and maxdiff(M, M.conj().T) > TOL:
            ctx.fail(kind + ":hermitian-flag-unsound", desc, "H = H^dagger", "max |diff| = %g" % maxdiff(M, M.conj().T))
        return M
    return None


def hubbard_oracle(ctx, spec, adj, H, t, u, spin, desc, nmax):
    L = len(adj)
    if L > nmax:
        return None
    if spin and isinstance(spec, dict) and spec.get("cls") == "LayeredLattice":
        base = np.asarray(make_lattice(spec["base"]).adjacency_matrix())      # "per spin layer": the base lattice itself
    else:
        base = np.asarray(adj)[:L // 2, :L // 2] if spin else adj
    M = H.as_matrix()
    R, N = ref_hubbard(L, base, t, u, spin)
    if maxdiff(M, R) > TOL:
        ctx.fail("hubbard:matrix-not-definition", desc, "-t hopping over edges (per layer) + u density-density",
                 "max |diff| = %g" % maxdiff(M, R))
    if H.is_hermitian() and maxdiff(M, M.conj().T) > TOL:
        ctx.fail("hubbard:hermitian-flag-unsound", desc, "H = H^dagger", "max |diff| = %g" % maxdiff(M, M.conj().T))
    if maxdiff(M @ N, N @ M) > TOL:
        ctx.fail("hubbard:number-not-conserved", desc, "[H, N] = 0", "max |diff| = %g" % maxdiff(M @ N, N @ M))
    return M


def mol_expected_accept(c, tk, vi, herm, varch):
    ok = True
    if herm:
        ok &= isinstance(c, (int, float))
        ok &= np.array_equal(tk, tk.conj().T)
        ok &= np.array_equal(vi, vi.conj().transpose(2, 3, 0, 1))
    if varch:
        ok &= np.array_equal(vi, vi.transpose(1, 0, 3, 2))
    return bool(ok)


def molecular_symm(herm, varch):
    from qib.operator import MolecularHamiltonianSymmetry as MS
    symm = MS(0)
    if herm:
        symm |= MS.HERMITIAN
    if varch:
        symm |= MS.VARCHANGE
    return symm


def molecular_check(ctx, H, L, c, tk, vi, herm, desc):
    """an accepted molecular Hamiltonian: matrix = definition, flag = declared symmetry, flag sound"""
    M = H.as_matrix()
    R = ref_molecular(L, c, tk, vi)
    if maxdiff(M, R) > TOL:
        ctx.fail("molecular:matrix-not-definition", desc, "c + sum t a+a + 1/2 sum v a+_i a+_j a_l a_k",
                 "max |diff| = %g" % maxdiff(M, R))
    if H.is_hermitian() != bool(herm):
        ctx.fail("molecular:is-hermitian-not-the-declared-symmetry", desc, bool(herm), H.is_hermitian())
    if H.is_hermitian() and maxdiff(M, M.conj().T) > TOL:
        ctx.fail("molecular:hermitian-flag-unsound", desc, "H = H^dagger", "max |diff| = %g" % maxdiff(M, M.conj().T))
    return M


def molecular_oracle(ctx, L, c, tk, vi, herm, varch, desc):
    """returns (H or None, matrix or None)"""
    import qib
    from qib.operator import MolecularHamiltonian
    symm = molecular_symm(herm, varch)
    field = qib.field.Field(qib.field.ParticleType.FERMION, qib.lattice.FullyConnectedLattice((L,)))
    want = mol_expected_accept(c, tk, vi, herm, varch)
    try:
        H = MolecularHamiltonian(field, c, tk, vi, symm)
        acc = True
    except ValueError:
        H, acc = None, False
    if acc != want:
        ctx.fail("molecular:constructor-accepts-iff-symmetric", desc, want, acc)
    if H is None:
        return None, None
    return H, molecular_check(ctx, H, L, c, tk, vi, herm, desc)


def term_flags(ctx, kind, fop, L, desc, nmax):
    """FieldOperatorTerm.is_hermitian of every term; oracle: a term that says so has a Hermitian matrix"""
    from qib.operator import FieldOperator
    flags = []
    for k, tm in enumerate(fop.terms):
        f = bool(tm.is_hermitian())
        flags.append(f)
        if f and L <= nmax and tm.opdesc:
            M = FieldOperator([tm]).as_matrix()
            if maxdiff(M, M.conj().T) > TOL:
                ctx.fail(kind + ":term-hermitian-flag-unsound", dict(desc, term=k), "term matrix = its adjoint",
                         "max |diff| = %g" % maxdiff(M, M.conj().T))
    try:
        whole = fop.is_hermitian()
    except NotImplementedError:
        whole = None
    if whole is not None and not all(flags):
        ctx.fail(kind + ":operator-hermitian-flag-not-from-terms", desc, "NotImplementedError", whole)
    return flags


# ------------------------------------------------------------------------------ correspondence cases
def case_ising(L, adj, params, op, M, nmat):
    return "CIsing %s %s %s %s %s %s %s %s" % (
        ct.nat(L), adj_term(adj), qv(params["J"]), qv(params["h"]), qv(params["g"]), ct.b(params["conv"] == "ZZ"),
        ops_term(op), opt_mat(M if (M is not None and L <= nmat) else None))


def case_heis(L, adj, params, op, M, nmat):
    return "CHeis %s %s %s %s %s %s" % (
        ct.nat(L), adj_term(adj), ct.lst([qv(v) for v in params["J"]]), ct.lst([qv(v) for v in params["h"]]),
        ops_term(op), opt_mat(M if (M is not None and L <= nmat) else None))


def case_hub(L, adj, t, u, spin, fop, flags, M, nmat):
    kin, inter = np.asarray(fop.terms[0].coeffs), np.asarray(fop.terms[1].coeffs)
    nz = [ct.pair(ct.lst([ct.nat(i) for i in idx]), qv(inter[idx])) for idx in zip(*np.nonzero(inter))]
    return "CHub %s %s %s %s %s %s %s %s %s" % (
        ct.nat(L), adj_term(adj), qv(t), qv(u), ct.b(spin), qmat(kin), ct.lst(nz), ct.lst([ct.b(f) for f in flags]),
        opt_mat(M if (M is not None and L <= nmat) else None))


def case_mol(L, nsites, c, tk, vi, herm, varch, H, fop, flags, M, nmat=4):
    if H is None:
        res = "None"
    else:
        res = ct.opt(ct.pair(ct.b(H.is_hermitian()), qv(complex(fop.terms[0].coeffs)),
                             qmat(fop.terms[1].coeffs), q4(fop.terms[2].coeffs), ct.lst([ct.b(f) for f in flags])))
    return "CMol %s %s %s %s %s %s %s %s %s %s" % (
        ct.nat(L), ct.nat(nsites), qv(c), ct.b(isinstance(c, (int, float))), qmat(tk), q4(vi), ct.b(herm), ct.b(varch),
        res, opt_mat(M if (M is not None and L <= nmat) else None))


HUB_PATS = [["FERMI_CREATE", "FERMI_ANNIHIL"], ["FERMI_CREATE", "FERMI_ANNIHIL"] * 2]
MOL_PATS = [[], ["FERMI_CREATE", "FERMI_ANNIHIL"], ["FERMI_CREATE"] * 2 + ["FERMI_ANNIHIL"] * 2]


def fop_patterns(fop):
    return [[d.otype.name for d in tm.opdesc] for tm in fop.terms]


# ------------------------------------------------------------------------------ builders

def build_spin(kind, spec, params):
    import qib
    latt = make_lattice(spec)
    field = qib.field.Field(qib.field.ParticleType.QUBIT, latt)
    if kind == "ising":
        conv = qib.operator.IsingConvention.ISING_ZZ if params["conv"] == "ZZ" else qib.operator.IsingConvention.ISING_XX
        return latt, qib.operator.IsingHamiltonian(field, params["J"], params["h"], params["g"], conv)
    return latt, qib.operator.HeisenbergHamiltonian(field, params["J"], params["h"])


def build_hubbard(spec, t, u, spin):
    import qib
    latt = make_lattice(spec)
    field = qib.field.Field(qib.field.ParticleType.FERMION, latt)
    return latt, qib.operator.FermiHubbardHamiltonian(field, t, u, spin=spin)


def rand_cplx(rng, real=False):
    re_ = rng.choice([0, 0, 1, -1, 0.5, -0.25, 2, 0.75])
    im_ = 0 if real else rng.choice([0, 0, 1, -1, 0.5, -0.5])
    return complex(re_, im_)


def cast_dtype(a, dtype):
    if dtype == "float":
        return np.ascontiguousarray(a.real, dtype=float)
    if dtype == "int":
        return np.ascontiguousarray(np.rint(4 * a.real), dtype=np.int64)
    return a


def rand_molecular(rng, L, herm, varch, style):
    """dyadic complex tensors; style: 'sym' (symmetrised as declared), 'raw', 'perturbed'"""
    tk = np.array([[rand_cplx(rng) for _ in range(L)] for _ in range(L)], dtype=complex)
    vi = np.array([rand_cplx(rng) if rng.random() < 0.6 else 0
                   for _ in range(L ** 4)], dtype=complex).reshape((L,) * 4)
    c = rng.choice([0, 1, -2, 0.5, -1.25, 3.0])
    if style in ("sym", "perturbed"):
        if herm:
            tk = tk + tk.conj().T
            vi = vi + vi.conj().transpose(2, 3, 0, 1)
        if varch:
            vi = vi + vi.transpose(1, 0, 3, 2)
    if style == "perturbed" and L >= 1:
        which = rng.choice(["t", "v", "c"])
        if which == "t":
            i, j = rng.randrange(L), rng.randrange(L)
            tk[i, j] += 0.5j if i == j else 0.5
        elif which == "v":
            idx = tuple(rng.randrange(L) for _ in range(4))
            vi[idx] += 0.25 + (0.5j if rng.random() < 0.5 else 0)
        else:
            c = complex(c, rng.choice([0.5, 0.0]))
    elif rng.random() < 0.15:
        c = complex(c, 0.5)
    return c, tk, vi


# ------------------------------------------------------------------------------ histories
# A Hamiltonian is a function of (lattice, parameters).  A history builds several Hamiltonians (same or
# different classes) on ONE lattice object and calls their generators repeatedly; every result must equal
# the result of the same call on freshly built objects, the definition (from the adjacency BEFORE the
# history), and nothing the caller can see of the lattice / of the arrays the caller handed in may change.
QUBIT_CALLS = ["as_pauli_operator", "as_matrix", "is_hermitian"]
FERMI_CALLS = ["as_field_operator", "as_matrix", "is_hermitian"]


def observe_lattice(latt):
    """what a caller can observe of a lattice (public API only, so caching inside the object is allowed)"""
    a = np.asarray(latt.adjacency_matrix())
    d = {"cls": type(latt).__name__, "nsites": int(latt.nsites), "ndim": int(latt.ndim),
         "shape": repr(getattr(latt, "shape", None)), "adj_dtype": str(a.dtype), "adj": a.tolist()}
    try:
        d["coords"] = [tuple(int(x) for x in np.ravel(latt.index_to_coord(i))) for i in range(latt.nsites)]
    except Exception as e:
        d["coords"] = type(e).__name__
    if hasattr(latt, "base_lattice"):
        d["nlayers"] = int(latt.nlayers)
        d["base"] = observe_lattice(latt.base_lattice)
    return d


def first_diff(a, b, path=""):
    if isinstance(a, dict) and isinstance(b, dict):
        for k in a:
            if a[k] != b.get(k):
                return first_diff(a[k], b.get(k), path + "." + k)
    return "%s: %r -> %r" % (path.lstrip("."), a, b)


def copy_owned(owned):
    return {k: (v.copy() if isinstance(v, np.ndarray) else list(v) if isinstance(v, list) else v) for k, v in owned.items()}


def owned_changed(before, now):
    for k, v in before.items():
        w = now[k]
        if isinstance(v, np.ndarray):
            if not (isinstance(w, np.ndarray) and w.dtype == v.dtype and w.shape == v.shape and np.array_equal(v, w)):
                return "%s: %r -> %r" % (k, v.tolist(), np.asarray(w).tolist())
        elif v != w or type(v) is not type(w):
            return "%s: %r -> %r" % (k, v, w)
    return None


def parse_c(txt):
    c = complex(txt)
    if "j" in txt:
        return c
    return float(txt) if "." in txt or "e" in txt else int(txt)


def step_molecular_arrays(step):
    L = len(step["tkin"])
    tk = np.array([[complex(x) for x in r] for r in step["tkin"]], dtype=complex).reshape((L, L))
    vi = np.array([complex(x) for x in step["vint"]], dtype=complex).reshape((L,) * 4)
    return L, parse_c(step["c"]), tk, vi


def make_ham(step, latt, fields):
    """build the step's Hamiltonian on `latt`; fields caches the Field objects of a shared lattice.
    Returns (H, owned) with owned = the mutable objects handed to the constructor."""
    import qib
    ham = step["ham"]
    ptype = qib.field.ParticleType.QUBIT if ham in ("ising", "heisenberg") else qib.field.ParticleType.FERMION
    key = (id(latt), ptype.name)
    if key not in fields:
        fields[key] = qib.field.Field(ptype, latt)
    field = fields[key]
    if ham == "ising":
        conv = qib.operator.IsingConvention.ISING_ZZ if step["conv"] == "ZZ" else qib.operator.IsingConvention.ISING_XX
        return qib.operator.IsingHamiltonian(field, step["J"], step["h"], step["g"], conv), {}
    if ham == "heisenberg":
        owned = {"J": list(step["J"]), "h": list(step["h"])}
        return qib.operator.HeisenbergHamiltonian(field, owned["J"], owned["h"]), owned
    if ham == "hubbard":
        return qib.operator.FermiHubbardHamiltonian(field, step["t"], step["u"], spin=step["spin"]), {}
    if ham == "molecular":
        _, c, tk, vi = step_molecular_arrays(step)
        owned = {"tkin": tk, "vint": vi}
        return qib.operator.MolecularHamiltonian(field, c, tk, vi, molecular_symm(step["herm"], step["varch"])), owned
    raise ValueError(ham)


def canon(call, r):
    if call == "is_hermitian":
        return bool(r)
    if call == "as_pauli_operator":
        return [(tuple(int(v) for v in w.paulis.z), tuple(int(v) for v in w.paulis.x), int(w.paulis.q), complex(w.weight))
                for w in r.pstrings]
    if call == "as_field_operator":
        return [([d.otype.name for d in tm.opdesc], np.array(tm.coeffs, copy=True)) for tm in r.terms]
    if call == "as_matrix":
        return sparse.csr_matrix(r).copy()
    raise ValueError(call)


def scribble(call, raw):
    """in-place edit of everything a generator handed out (the caller owns its results): a later generation on
    the same Hamiltonian must not see it"""
    try:
        if call == "as_pauli_operator":
            for w in raw.pstrings:
                w.weight += 1
                w.paulis.z[...] = 1 - w.paulis.z
        elif call == "as_field_operator":
            for tm in raw.terms:
                if isinstance(tm.coeffs, np.ndarray) and tm.coeffs.flags.writeable:
                    tm.coeffs[...] = tm.coeffs + 1
        elif call == "as_matrix":
            if sparse.issparse(raw):
                raw.data[...] = raw.data + 1
            elif isinstance(raw, np.ndarray) and raw.flags.writeable:
                raw[...] = raw + 1
    except (AttributeError, TypeError, ValueError):
        pass


def same_result(call, a, b):
    if call == "as_matrix":
        return a.shape == b.shape and maxdiff(a, b) == 0
    if call == "as_field_operator":
        return len(a) == len(b) and all(p == q and x.shape == y.shape and np.array_equal(x, y)
                                        for (p, x), (q, y) in zip(a, b))
    return a == b


def show_result(call, r):
    if call == "as_matrix":
        return "matrix, nnz=%d, max|H - H^dagger| = %g" % (r.nnz, maxdiff(r, r.conj().T))
    if call == "as_field_operator":
        return [(p, x.tolist() if x.size <= 36 else [list(map(int, i)) + [complex(x[i])] for i in zip(*np.nonzero(x))][:12])
                for p, x in r]
    return repr(r)[:400]


class _Sink:
    """stands in for ctx inside the per-class oracles: collects (sig, expected, observed)"""

    def __init__(self):
        self.items = []

    def fail(self, sig, input=None, expected=None, observed=None, how=None):
        self.items.append((sig, expected, observed))


def run_history(hist, nmax=8, collect=None, nmat_spin=4, nmat_fermi=5):
    """Returns the list of failures [(sig, truncated history, expected, observed)], first occurrence per sig.
    collect: optional list receiving (coq case term, description, nontrivial) for the correspondence, built from
    the adjacency BEFORE the history and the implementation's outputs at each step."""
    spec = hist["lattice"]
    steps = hist["steps"]
    fails = []

    def flag(sig, k, c, expected, observed):
        if any(f[0] == sig for f in fails):
            return
        st = [dict(x) for x in steps[:k + 1]]
        st[-1]["calls"] = list(st[-1]["calls"][:c + 1])
        fails.append((sig, {"kind": "history", "lattice": spec, "steps": st}, expected, observed))

    def target(top, step):
        return top.base_lattice if step.get("on") == "base" else top

    keep = {}
    top = make_lattice(spec, keep)
    names = ["lattice"] + (["base"] if hasattr(top, "base_lattice") else [])
    lat = {"lattice": top, "base": getattr(top, "base_lattice", None)}
    obs = {n: observe_lattice(lat[n]) for n in names}
    adj0 = {n: np.array(lat[n].adjacency_matrix()).astype(int) for n in names}
    # arrays the caller holds: what went into the lattice constructor, what adjacency_matrix() handed out
    held = dict(keep)
    for n in names:
        held["adjacency_matrix() of the " + n] = lat[n].adjacency_matrix()
    state = {"obs": obs, "held0": copy_owned(held), "owned0": {}}

    def frame(ham, k, c, what, owned):
        """compared with the state just before this generation, so only the one that changes something is blamed"""
        now = {n: observe_lattice(lat[n]) for n in names}
        if now != state["obs"]:
            flag("history:lattice-modified-by-%s" % ham, k, c, "lattice unchanged by " + what, first_diff(state["obs"], now))
            state["obs"] = now
        ch = owned_changed(state["held0"], held) or owned_changed(state["owned0"], owned)
        if ch:
            flag("history:caller-array-modified-by-%s" % ham, k, c, "caller-held arrays unchanged by " + what, ch)
            state["held0"], state["owned0"] = copy_owned(held), copy_owned(owned)

    fields = {}
    for k, step in enumerate(steps):
        ham, calls = step["ham"], step["calls"]
        tname = "base" if step.get("on") == "base" else "lattice"
        latt = lat[tname]
        L = latt.nsites

        def fresh():
            return make_ham(step, target(make_lattice(spec), step), {})[0]
        try:
            H, owned = make_ham(step, latt, fields)
            err = None
        except ValueError as e:
            H, owned, err = None, {}, e
        try:
            fresh()
            ferr = None
        except ValueError as e:
            ferr = e
        if (err is None) != (ferr is None):
            flag("history:%s-constructor-outcome-depends-on-history" % ham, k, -1,
                 "as on a fresh lattice object: %r" % (ferr,), repr(err))
        if H is None:
            continue
        state["owned0"] = copy_owned(owned)
        seen = {}
        for c, call in enumerate(calls):
            try:
                raw = getattr(H, call)()
                r = canon(call, raw)
            except NotImplementedError:
                continue
            if step.get("scribble"):
                scribble(call, raw)
            frame(ham, k, c, "%s.%s()" % (ham, call), owned)
            if call in seen and not same_result(call, seen[call], r):
                flag("history:%s-repeated-call-differs" % ham, k, c, show_result(call, seen[call]), show_result(call, r))
            seen.setdefault(call, r)
            rf = canon(call, getattr(fresh(), call)())
            if not same_result(call, rf, r):
                flag("history:%s-result-differs-from-fresh-object" % ham, k, c,
                     "%s() on freshly built lattice/field/Hamiltonian: %s" % (call, show_result(call, rf)), show_result(call, r))
        # the definition, from the adjacency before the history (these generate once more)
        sink = _Sink()
        adj = adj0[tname]
        M = fop = flags = op = None
        if not adjacency_ok(adj):
            continue
        if ham in ("ising", "heisenberg"):
            params = {x: step[x] for x in ("J", "h", "g", "conv") if x in step}
            M = spin_oracle(sink, ham, spec, adj, H, params, None, nmax)
            op = H.as_pauli_operator()
        elif ham == "hubbard":
            M = hubbard_oracle(sink, spec, adj, H, step["t"], step["u"], step["spin"], None, nmax)
            fop = H.as_field_operator()
            if fop_patterns(fop) != HUB_PATS:
                sink.fail("hubbard:operator-pattern", None, "[c a], [c a c a]", fop_patterns(fop))
                fop = None
            else:
                flags = term_flags(sink, "hubbard", fop, L, {}, nmax)
        else:
            _, cc, tk, vi = step_molecular_arrays(step)
            M = molecular_check(sink, H, L, cc, tk, vi, step["herm"], None) if L <= nmax else None
            fop = H.as_field_operator()
            if fop_patterns(fop) != MOL_PATS:
                sink.fail("molecular:operator-pattern", None, "[], [c a], [c c a a]", fop_patterns(fop))
                fop = None
            else:
                flags = term_flags(sink, "molecular", fop, L, {}, 4)
        frame(ham, k, len(calls) - 1, "one more generation of the %s Hamiltonian after the listed calls" % ham, owned)
        for sig, e, o in sink.items:
            flag(sig, k, len(calls) - 1, "after the listed calls, generated once more on the same objects: %s" % (e,), o)
        if collect is not None:
            desc = {"kind": "history", "lattice": spec, "steps": steps[:k + 1]}
            nedges = len(edge_list(adj))
            if ham == "ising":
                collect.append((case_ising(L, adj, params, op, M, nmat_spin), desc, nedges > 0 and params["J"] != 0))
            elif ham == "heisenberg":
                collect.append((case_heis(L, adj, params, op, M, nmat_spin), desc, nedges > 0 and any(params["J"])))
            elif ham == "hubbard" and fop is not None:
                collect.append((case_hub(L, adj, step["t"], step["u"], step["spin"], fop, flags, M, nmat_fermi), desc,
                                nedges > 0 and (step["t"] != 0 or step["u"] != 0)))
            elif ham == "molecular" and fop is not None:
                collect.append((case_mol(L, L, cc, tk, vi, step["herm"], step["varch"], H, fop, flags, M), desc,
                                bool(np.any(vi != 0))))
    return fails


def shrink_history(hist, sig, nmax):
    """greedy: drop steps / calls while the same signature is still produced"""
    def still(h):
        try:
            return any(f[0] == sig for f in run_history(h, nmax))
        except Exception:
            return False
    cur = hist
    k = 0
    while k < len(cur["steps"]) - 1:
        cand = dict(cur, steps=cur["steps"][:k] + cur["steps"][k + 1:])
        if still(cand):
            cur = cand
        else:
            k += 1
    for k in range(len(cur["steps"])):
        c = 0
        while c < len(cur["steps"][k]["calls"]) and len(cur["steps"][k]["calls"]) > 1:
            st = [dict(x) for x in cur["steps"]]
            st[k]["calls"] = st[k]["calls"][:c] + st[k]["calls"][c + 1:]
            cand = dict(cur, steps=st)
            if still(cand):
                cur = cand
            else:
                c += 1
    return cur


def molecular_step(rng, L, calls):
    herm, varch = rng.random() < 0.6, rng.random() < 0.5
    c, tk, vi = rand_molecular(rng, L, herm, varch, "sym")
    if herm and isinstance(c, complex):
        c = c.real
    return {"ham": "molecular", "c": repr(c), "tkin": [[repr(complex(x)) for x in r] for r in tk],
            "vint": [repr(complex(x)) for x in vi.reshape(-1)], "herm": herm, "varch": varch, "calls": calls}


def random_step(rng, L, layered2, has_base, nonzero=False):
    def pick():
        v = rng.choice(COUPLINGS)
        return v if (v != 0 or not nonzero) else 1
    kinds = ["ising", "heisenberg", "hubbard", "hubbard"] + (["molecular"] if L <= 3 else []) + (["hubbard2"] if layered2 else [])
    ham = rng.choice(kinds)
    pool = QUBIT_CALLS if ham in ("ising", "heisenberg") else FERMI_CALLS
    calls = [rng.choice(pool[:2]) for _ in range(rng.choice([1, 2, 2, 3]))]
    if rng.random() < 0.3:
        calls.insert(rng.randrange(len(calls) + 1), "is_hermitian")
    if ham == "ising":
        st = {"ham": "ising", "J": pick(), "h": pick(), "g": pick(), "conv": rng.choice(["ZZ", "XX"]), "calls": calls}
    elif ham == "heisenberg":
        st = {"ham": "heisenberg", "J": [pick(), pick(), pick()], "h": [pick(), pick(), pick()], "calls": calls}
    elif ham == "hubbard":
        st = {"ham": "hubbard", "t": float(pick()), "u": float(pick()), "spin": False, "calls": calls}
    elif ham == "hubbard2":
        st = {"ham": "hubbard", "t": float(pick()), "u": float(pick()), "spin": True, "calls": calls}
    else:
        st = molecular_step(rng, L, calls)
    if has_base and ham != "hubbard2" and ham != "molecular" and rng.random() < 0.4:
        st["on"] = "base"
    if rng.random() < 0.5:
        st["scribble"] = True       # every result is edited in place by its receiver before the next call
    return st


def history_catalogue(rng, thorough):
    """one scripted parameter-scan history per lattice class (incl. periodic extent-2 axes, one site, no edges,
    layered lattices sharing their base object) + random histories"""
    reps = [{"cls": "IntegerLattice", "shape": [3], "pbc": [False]},
            {"cls": "IntegerLattice", "shape": [2], "pbc": [True]},
            {"cls": "IntegerLattice", "shape": [1], "pbc": [False]},
            {"cls": "IntegerLattice", "shape": [2, 2], "pbc": [True, False]},
            {"cls": "TriangularLattice", "shape": [2, 2], "pbc": [False, False]},
            {"cls": "OddFaceCenteredLattice", "shape": [2, 2], "pbc": [False, False]},
            {"cls": "HexagonalLattice", "shape": [1, 1], "convention": "COLS_SHIFTED_UP"},
            {"cls": "BrickLattice", "shape": [1, 1], "delete": False, "convention": "ROWS_SHIFTED_LEFT"},
            {"cls": "FullyConnectedLattice", "shape": [3]},
            {"cls": "CustomizedLattice", "shape": [4], "adj": [[0, 1, 1, 0], [1, 0, 1, 0], [1, 1, 0, 1], [0, 0, 1, 0]]},
            {"cls": "CustomizedLattice", "shape": [3], "adj": [[0, 0, 1], [0, 0, 1], [1, 1, 0]]},
            {"cls": "CustomizedLattice", "shape": [2], "adj": [[0, 1], [1, 0]]},
            {"cls": "CustomizedLattice", "shape": [3], "adj": [[0, 0, 0], [0, 0, 0], [0, 0, 0]]},
            {"cls": "StoredAdjacencyLattice", "adj": TRIANGLE_TAIL},
            {"cls": "StoredAdjacencyLattice", "adj": [[0, 1], [1, 0]]},
            {"cls": "LayeredLattice", "nlayers": 2, "base": {"cls": "StoredAdjacencyLattice", "adj": [[0, 1, 1], [1, 0, 0], [1, 0, 0]]}},
            {"cls": "LayeredLattice", "nlayers": 2, "base": {"cls": "IntegerLattice", "shape": [2], "pbc": [False]}},
            {"cls": "LayeredLattice", "nlayers": 2,
             "base": {"cls": "CustomizedLattice", "shape": [3], "adj": [[0, 1, 1], [1, 0, 0], [1, 0, 0]]}},
            {"cls": "LayeredLattice", "nlayers": 3, "base": {"cls": "CustomizedLattice", "shape": [2], "adj": [[0, 1], [1, 0]]}},
            {"cls": "LayeredLattice", "nlayers": 1, "base": {"cls": "FullyConnectedLattice", "shape": [3]}}]
    hists = []
    for spec in reps:
        latt = make_lattice(spec)
        L = latt.nsites
        layered = spec["cls"] == "LayeredLattice"
        l2 = layered and spec["nlayers"] == 2
        steps = [{"ham": "hubbard", "t": 1.0, "u": 2.0, "spin": False, "calls": ["as_matrix", "as_field_operator", "as_matrix"]},
                 {"ham": "ising", "J": -1.5, "h": 0.5, "g": 2, "conv": "ZZ", "calls": ["as_pauli_operator", "as_matrix"]},
                 {"ham": "hubbard", "t": 0.5, "u": -3.0, "spin": False, "calls": ["is_hermitian", "as_field_operator"]},
                 {"ham": "heisenberg", "J": [1, 0, -0.75], "h": [0.25, 2, 0], "calls": ["as_matrix", "as_pauli_operator", "as_matrix"]},
                 {"ham": "ising", "J": 2, "h": 0, "g": -0.75, "conv": "XX", "calls": ["as_matrix"]}]
        if L <= (4 if thorough else 3):
            steps.append(molecular_step(rng, L, ["as_field_operator", "as_matrix", "as_matrix"]))
        if l2:
            steps.append({"ham": "hubbard", "t": 2.0, "u": 0.625, "spin": True, "calls": ["as_matrix", "as_field_operator"]})
        if layered:
            steps.append({"ham": "hubbard", "t": -1.0, "u": 4.0, "spin": False, "on": "base", "calls": ["as_matrix", "as_matrix"]})
            steps.append({"ham": "heisenberg", "J": [0.5, 0.5, 2], "h": [0, 0, -1], "on": "base", "calls": ["as_pauli_operator"]})
        if l2:
            steps.append({"ham": "hubbard", "t": -1.5, "u": -0.75, "spin": True, "calls": ["as_field_operator", "as_matrix"]})
        steps.append({"ham": "hubbard", "t": 0.25, "u": 1.0, "spin": False, "calls": ["as_matrix"]})
        hists.append({"kind": "history", "lattice": spec, "steps": steps})
    pool = [s for s in catalogue(rng, False)]
    nrand = 40 if thorough else 14
    tries = 0
    while nrand and tries < 400:
        tries += 1
        spec = rng.choice(pool)
        try:
            latt = make_lattice(spec)
            if latt.nsites > (7 if thorough else 6) or not adjacency_ok(latt.adjacency_matrix()):
                continue
        except Exception:
            continue
        layered = spec["cls"] == "LayeredLattice"
        steps = [random_step(rng, latt.nsites, layered and spec["nlayers"] == 2, layered, nonzero=(i == 0))
                 for i in range(rng.choice([2, 3, 3, 4]))]
        hists.append({"kind": "history", "lattice": spec, "steps": steps})
        nrand -= 1
    return hists


# ------------------------------------------------------------------------------ parameter-type probes
# "real couplings" is enforced by the constructors (isinstance checks).  A coupling of an unusual type is either
# refused, or the Hamiltonian built from it is the definition and is Hermitian if it says so.
PROBE_VALUES = {"complex": 1 + 0.5j, "complex_zero_imag": 2 + 0j, "np.complex128": np.complex128(0.5 - 1j),
                "np.float64": np.float64(0.5), "np.float32": np.float32(-0.75), "np.int64": np.int64(2),
                "int": 2, "bool": True, "negative_zero": -0.0,
                "np.complex64": np.complex64(0.5 + 0.25j), "np.clongdouble": np.clongdouble(-1.5 + 2j),
                "np.float16": np.float16(0.5), "np.longdouble": np.longdouble(0.75), "np.int8": np.int8(-3), "np.bool_": np.bool_(True),
                "0d-complex128": np.array(0.5 + 0.25j), "0d-float64": np.array(-1.25), "0d-int64": np.array(3)}
PROBE_SLOTS = {"ising": ["J", "h", "g"], "heisenberg": ["J0", "J2", "h1"], "hubbard": ["t", "u"], "hubbard2": ["t", "u"],
               "molecular": ["c"]}
PROBE_LATTICES = [{"cls": "IntegerLattice", "shape": [3], "pbc": [False]},
                  {"cls": "CustomizedLattice", "shape": [4], "adj": [[0, 1, 1, 0], [1, 0, 1, 0], [1, 1, 0, 1], [0, 0, 1, 0]]},
                  {"cls": "LayeredLattice", "nlayers": 2, "base": {"cls": "IntegerLattice", "shape": [2], "pbc": [False]}}]


def plain(v):
    if isinstance(v, np.ndarray):
        v = v.item()
    return complex(v) if isinstance(v, (complex, np.complexfloating)) else float(v)


def run_probe_molecular(ctx, desc):
    """the constant c of a molecular Hamiltonian (declared HERMITIAN or not) in an unusual type: refused, or the accepted
    Hamiltonian is the definition, and Hermitian if it says so (the realness guard decides by type, the flag is about the value)"""
    import qib
    from qib.operator import MolecularHamiltonian
    L, herm, varch = desc["L"], desc["herm"], desc["varch"]
    v = PROBE_VALUES[desc["ptype"]]
    tk = np.array([[0.5 * (i + j + 1) + 0.25j * (i - j) for j in range(L)] for i in range(L)], dtype=complex)
    vi = np.zeros((L,) * 4, dtype=complex)
    for i in range(L):
        for j in range(L):
            vi[i, j, i, j] = 0.5 + 0.25 * (i + j)
            if i != j:
                vi[i, j, j, i] = -0.75
    field = qib.field.Field(qib.field.ParticleType.FERMION, qib.lattice.FullyConnectedLattice((L,)))
    try:
        H = MolecularHamiltonian(field, v, tk, vi, molecular_symm(herm, varch))
    except (ValueError, TypeError):
        return "refused"
    molecular_check(ctx, H, L, plain(v), tk, vi, herm, desc)
    return "accepted"


def run_probe(ctx, desc):
    """returns 'accepted' / 'refused'"""
    import qib
    ham, slot, v = desc["ham"], desc["slot"], PROBE_VALUES[desc["ptype"]]
    if ham == "molecular":
        return run_probe_molecular(ctx, desc)
    spec = desc["lattice"]
    latt = make_lattice(spec)
    adj = np.asarray(latt.adjacency_matrix())
    try:
        if ham == "ising":
            raw = {"J": 1.5, "h": -0.5, "g": 0.25, "conv": desc["conv"]}
            raw[slot] = v
            _, H = build_spin("ising", spec, raw)
            ref = {k: (plain(x) if k != "conv" else x) for k, x in raw.items()}
        elif ham == "heisenberg":
            raw = {"J": [1.5, -0.5, 2.0], "h": [0.25, 1.0, -3.0]}
            raw[slot[0]][int(slot[1])] = v
            _, H = build_spin("heisenberg", spec, raw)
            ref = {k: [plain(x) for x in raw[k]] for k in raw}
        else:
            raw = {"t": 1.5, "u": -0.5}
            raw[slot] = v
            _, H = build_hubbard(spec, raw["t"], raw["u"], ham == "hubbard2")
            ref = {k: plain(x) for k, x in raw.items()}
    except (ValueError, TypeError):
        return "refused"
    if ham in ("ising", "heisenberg"):
        spin_oracle(ctx, ham, spec, adj, H, ref, desc, 8)
    else:
        hubbard_oracle(ctx, spec, adj, H, ref["t"], ref["u"], ham == "hubbard2", desc, 8)
    return "accepted"


def type_probes(ctx):
    for ptype in PROBE_VALUES:
        for L, herm, varch in ((1, True, False), (2, True, True), (2, True, False), (3, True, True), (2, False, True)):
            desc = {"kind": "probe", "ham": "molecular", "slot": "c", "ptype": ptype, "L": L, "herm": herm, "varch": varch}
            try:
                res = run_probe(ctx, desc)
            except Exception as e:
                ctx.fail("molecular:exception", desc, "refusal or a Hamiltonian", repr(e))
                continue
            ctx.count("probe_molecular_%s_%s_%s" % ("hermitian" if herm else "general", ptype, res))
    for spec in PROBE_LATTICES:
        for ham, slots in PROBE_SLOTS.items():
            if ham == "molecular" or (ham == "hubbard2" and spec["cls"] != "LayeredLattice"):
                continue
            for slot in slots:
                for ptype in PROBE_VALUES:
                    desc = {"kind": "probe", "ham": ham, "lattice": spec, "slot": slot, "ptype": ptype}
                    if ham == "ising":
                        desc["conv"] = "XX" if slot == "h" else "ZZ"
                    try:
                        res = run_probe(ctx, desc)
                    except Exception as e:
                        ctx.fail("%s:exception" % ham.rstrip("2"), desc, "refusal or a Hamiltonian", repr(e))
                        continue
                    ctx.count("probe_%s_%s_%s" % (ham.rstrip("2"), ptype, res))


# ------------------------------------------------------------------------------ run

def run(ctx):
    import qib
    import hamil as gen_hamil
    ctx.trusted.append(
        "C15: regenerated from /repo on every run (gen/hamil.py): the loop nests of Ising/Heisenberg as_pauli_operator, "
        "the Hubbard coefficient-tensor construction, MolecularHamiltonian's symmetry checks, is_hermitian bodies and "
        "as_field_operator; guarded fail-closed by the translator without Coq output: the isinstance validations and plain "
        "attribute stores of the Ising/Heisenberg/Hubbard constructors, every as_matrix body = matrix of the generated operator. "
        "Statefulness is outside the model (the model is a pure function of the adjacency): tied by the history oracle and by "
        "history correspondence cases that feed the model the adjacency recorded BEFORE the history. "
        "Hand-modelled and tied by correspondence: PauliString.from_single_paulis / PauliOperator (C09 model), "
        "FieldOperator.as_matrix (Jordan-Wigner kron loop, modelled as structural Kronecker products; zero-coefficient skipping "
        "is a no-op in exact arithmetic), numpy kron/identity/zeros/transpose/conj/.T as their index formulas")
    ctx.assumes.append("adjacency_matrix() is 0/1, symmetric with zero diagonal (C14's conclusion) - inputs violating it are "
                       "skipped and counted; couplings are ring elements (exact arithmetic, dyadic test data); numpy.allclose in "
                       "MolecularHamiltonian.__init__ / FieldOperatorTerm.is_hermitian is modelled as exact equality, so those "
                       "Hermiticity flags are sound up to rtol=1e-5/atol=1e-8; isinstance(c,(int,float)) is taken to mean c is real")
    nmat_coq = 5 if ctx.thorough else 4
    nmat_np = 10 if ctx.thorough else 8
    ctx.rules.append("every lattice class (Integer, Triangular, OddFaceCentered, Hexagonal, Brick, FullyConnected, Customized, "
                     "Layered, and a user-defined AbstractLattice subclass whose adjacency_matrix() returns its stored array) x small shapes x all boundary-condition combinations, adjacency_matrix() of the implementation as "
                     "input; dyadic couplings incl. 0 and negative; both Ising conventions; Hubbard spinless on every lattice and "
                     "spinful on every 2-layer lattice; molecular tensors on 1..4 orbitals with/without the declared symmetries. "
                     "Model matrices compared for <= %d sites, numpy oracle for <= %d sites. "
                     "non-trivial = lattice with at least one edge and a non-zero coupling (molecular: a non-zero two-body tensor)"
                     % (nmat_coq + 1, nmat_np))
    ctx.rules.append("parameter-type probes: each coupling slot of Ising/Heisenberg/Hubbard and the constant c of the molecular "
                     "Hamiltonian (declared HERMITIAN or not) in turn receives a Python complex / int / bool, numpy float16/32/64/"
                     "longdouble, complex64/128/clongdouble, int8/64, bool_ scalar or a 0-d array: refused, or accepted and then "
                     "checked like every other input (definition, Hermitian if it says so)")
    ctx.rules.append("histories: one scripted parameter scan per lattice class (Hubbard x3, Ising ZZ/XX, Heisenberg, molecular, "
                     "spinful Hubbard and Hamiltonians on the shared base object of layered lattices) + random histories of 2-4 "
                     "Hamiltonians, all on ONE lattice object with repeated as_pauli_operator/as_field_operator/as_matrix calls; "
                     "after every call: observable lattice state and all caller-held arrays (CustomizedLattice adj, arrays returned "
                     "by adjacency_matrix(), J/h lists, tkin/vint) unchanged, result = result on freshly built objects = earlier "
                     "result of the same call, and = the definition from the adjacency before the history; every step is also a "
                     "correspondence case (model applied to the adjacency BEFORE the history)")
    ctx.lib(["Hamil/HamilCheck", "Hamil/HamilProofs2"])
    if ctx.translate("GenHamil", gen_hamil.generate):
        ctx.props()
    else:
        ctx.oblige("props:C15", "theorem", False, "not compiled: translator failed")

    rng = ctx.rng
    cases = []

    def add(term, desc, nontrivial=True):
        cases.append((term, desc))
        if nontrivial:
            ctx.nontriv(desc)
        ctx.sample(desc)

    def pick():
        return rng.choice(COUPLINGS)

    specs = catalogue(rng, ctx.thorough)
    nspin_max = 12 if ctx.thorough else 10
    for spec in specs:
        try:
            latt = make_lattice(spec)
            adj = np.asarray(latt.adjacency_matrix())
            L = latt.nsites
        except Exception as e:
            ctx.count("lattice_construction_failed_" + type(e).__name__)
            continue
        if not adjacency_ok(adj) or adj.shape != (L, L):
            ctx.count("skipped_adjacency_violates_C14_" + spec["cls"])
            continue
        ctx.count("lattice_" + spec["cls"])
        ctx.count("nsites=%d" % L)
        nedges = len(edge_list(adj))

        # ------------------------------------------------------------ Ising, both conventions
        if L <= nspin_max:
            for conv in ("ZZ", "XX"):
                params = {"J": pick(), "h": pick(), "g": pick(), "conv": conv}
                if rng.random() < 0.3:
                    params["J"] = rng.choice([1, -2, 0.5])
                desc = {"kind": "ising", "lattice": spec, **params}
                try:
                    _, H = build_spin("ising", spec, params)
                    M = spin_oracle(ctx, "ising", spec, adj, H, params, desc, nmat_np)
                    op = H.as_pauli_operator()
                except Exception as e:
                    ctx.fail("ising:exception", desc, "a Hamiltonian", repr(e))
                    continue
                add(case_ising(L, adj, params, op, M, nmat_coq), desc, nedges > 0 and params["J"] != 0)
            # -------------------------------------------------------- Heisenberg
            for rep in range(2 if (L <= 4 or ctx.thorough) else 1):
                params = {"J": [pick(), pick(), pick()], "h": [pick(), pick(), pick()]}
                if rep == 1 or rng.random() < 0.25:
                    params["J"][rng.randrange(3)] = 0          # a vanishing component
                desc = {"kind": "heisenberg", "lattice": spec, **params}
                try:
                    _, H = build_spin("heisenberg", spec, params)
                    M = spin_oracle(ctx, "heisenberg", spec, adj, H, params, desc, nmat_np)
                    op = H.as_pauli_operator()
                except Exception as e:
                    ctx.fail("heisenberg:exception", desc, "a Hamiltonian", repr(e))
                    continue
                add(case_heis(L, adj, params, op, M, nmat_coq), desc, nedges > 0 and any(params["J"]))

        # ------------------------------------------------------------ Fermi-Hubbard
        is_layered = spec["cls"] == "LayeredLattice"
        modes = [False]
        if is_layered:
            modes.append(True)
        for spin, rep in [(m, r) for m in modes for r in range(3 if m else 1)]:
            if L > nmat_np:
                continue
            t, u = float(pick()), float(pick())
            if rep == 1:
                u = -abs(u) - 0.5                              # attractive interaction
            desc = {"kind": "hubbard", "lattice": spec, "t": t, "u": u, "spin": spin}
            expect_refusal = spin and spec["nlayers"] != 2
            try:
                _, H = build_hubbard(spec, t, u, spin)
            except ValueError as e:
                if not expect_refusal:
                    ctx.fail("hubbard:unexpected-refusal", desc, "a Hamiltonian", repr(e))
                ctx.count("hubbard_refused")
                continue
            if expect_refusal:
                ctx.fail("hubbard:spinful-accepts-non-bilayer", desc, "ValueError", "accepted")
                continue
            try:
                M = hubbard_oracle(ctx, spec, adj, H, t, u, spin, desc, nmat_np)
                fop = H.as_field_operator()
                flags = term_flags(ctx, "hubbard", fop, L, desc, nmat_np)
                pats = fop_patterns(fop)
            except Exception as e:
                ctx.fail("hubbard:exception", desc, "a field operator", repr(e))
                continue
            if pats != HUB_PATS:
                ctx.fail("hubbard:operator-pattern", desc, "[c a], [c a c a]", pats)
                continue
            ctx.count("hubbard_%s" % ("spinful" if spin else "spinless"))
            add(case_hub(L, adj, t, u, spin, fop, flags, M, nmat_coq + 1), desc, nedges > 0 and (t != 0 or u != 0))
        # spin=True on a lattice that is not layered must be refused
        if not is_layered and L <= 4:
            desc = {"kind": "hubbard", "lattice": spec, "t": 1.0, "u": 1.0, "spin": True}
            try:
                build_hubbard(spec, 1.0, 1.0, True)
                ctx.fail("hubbard:spinful-accepts-non-bilayer", desc, "ValueError", "accepted")
            except ValueError:
                ctx.count("hubbard_refused")

    ctx.log('lattice sweep done, %d cases' % len(cases))
    # ---------------------------------------------------------------- molecular Hamiltonian
    nmol = 90 if ctx.thorough else 36
    for k in range(nmol):
        L = [1, 2, 2, 3, 3, 4][k % 6] if not (ctx.thorough and k % 15 == 14) else 5
        herm, varch = bool(k & 1), bool(k & 2)
        style = ["sym", "sym", "perturbed", "raw"][(k // 4) % 4]
        c, tk, vi = rand_molecular(rng, L, herm, varch, style)
        # array dtypes a caller may hand in: complex128 (default), float64, int64 (real parts; x4 makes them integers)
        dtype = ["complex", "complex", "float", "complex", "int"][(k // 2) % 5]
        tk, vi = cast_dtype(tk, dtype), cast_dtype(vi, dtype)
        ctx.count("molecular_dtype_" + dtype)
        desc = {"kind": "molecular", "L": L, "c": repr(c), "tkin": [[repr(complex(x)) for x in r] for r in tk],
                "vint": [repr(complex(x)) for x in vi.reshape(-1)], "herm": herm, "varch": varch, "dtype": dtype}
        try:
            H, M = molecular_oracle(ctx, L, c, tk, vi, herm, varch, desc)
        except Exception as e:
            ctx.fail("molecular:exception", desc, "accept or ValueError", repr(e))
            continue
        ctx.count("molecular_%s_%s" % (style, "accepted" if H is not None else "refused"))
        fop = flags = None
        if H is not None:
            fop = H.as_field_operator()
            pats = fop_patterns(fop)
            if pats != MOL_PATS:
                ctx.fail("molecular:operator-pattern", desc, "[], [c a], [c c a a]", pats)
                continue
            flags = term_flags(ctx, "molecular", fop, L, desc, 4)
        add(case_mol(L, L, c, tk, vi, herm, varch, H, fop, flags, M), desc, bool(np.any(vi != 0)))
    # lattice size mismatch is refused
    try:
        field = qib.field.Field(qib.field.ParticleType.FERMION, qib.lattice.FullyConnectedLattice((3,)))
        qib.operator.MolecularHamiltonian(field, 0.0, np.zeros((2, 2)), np.zeros((2, 2, 2, 2)),
                                          qib.operator.MolecularHamiltonianSymmetry(0))
        ctx.fail("molecular:accepts-wrong-lattice-size", {"kind": "molecular-size"}, "ValueError", "accepted")
    except ValueError:
        z2 = qmat(np.zeros((2, 2)))
        add("CMol %s %s %s true %s %s false false None None" % (ct.nat(2), ct.nat(3), qv(0), z2, q4(np.zeros((2,) * 4))),
            {"kind": "molecular-size"}, False)

    type_probes(ctx)
    ctx.log('molecular done, %d cases' % len(cases))
    # ---------------------------------------------------------------- histories on one lattice object
    for hist in history_catalogue(rng, ctx.thorough):
        col = []
        short = {"kind": "history", "lattice": hist["lattice"],
                 "steps": [{k: v for k, v in st.items() if k not in ("tkin", "vint")} for st in hist["steps"]]}
        try:
            fails = run_history(hist, nmat_np, col, 3, 4)
        except Exception as e:
            ctx.fail("history:exception", hist, "every generation succeeds", repr(e))
            continue
        for sig, h, e, o in fails:
            if not any(f["sig"] == sig for f in ctx.failing):
                h2 = shrink_history(h, sig, nmat_np)
                again = [f for f in run_history(h2, nmat_np) if f[0] == sig]
                if again:
                    _, h, e, o = again[0]
            ctx.fail(sig, h, e, o)
        ctx.count("history_lattice_" + hist["lattice"]["cls"])
        for st in hist["steps"]:
            ctx.count("history_step_%s%s" % (st["ham"], "_on_shared_base" if st.get("on") == "base" else ""))
            ctx.count("history_generations", len(st["calls"]))
        for k, (term, desc, nt) in enumerate(col):
            cases.append((term, dict(short, steps=short["steps"][:len(desc["steps"])])))
            if nt:
                ctx.nontriv(cases[-1][1])
    ctx.sample(short, cap=7)
    ctx.log('histories done, %d cases' % len(cases))
    dis = ctx.cases("hamil", HEADER, cases, shard=40)
    ctx.log('model evaluation done')
    for i, d in dis[:5]:
        ctx.log("model/impl disagree on", {k: v for k, v in d.items() if k not in ("tkin", "vint")})


# ------------------------------------------------------------------------------ replay

def replay(ctx, data):
    inp, sig = data["input"], data["sig"]
    before = len(ctx.failing)
    kind = inp.get("kind")
    if kind in ("ising", "heisenberg"):
        latt = make_lattice(inp["lattice"])
        adj = np.asarray(latt.adjacency_matrix())
        params = {k: inp[k] for k in ("J", "h", "g", "conv") if k in inp}
        _, H = build_spin(kind, inp["lattice"], params)
        spin_oracle(ctx, kind, inp["lattice"], adj, H, params, inp, 10)
    elif kind == "hubbard":
        latt = make_lattice(inp["lattice"])
        adj = np.asarray(latt.adjacency_matrix())
        try:
            _, H = build_hubbard(inp["lattice"], inp["t"], inp["u"], inp["spin"])
            if sig == "hubbard:spinful-accepts-non-bilayer":
                ctx.fail(sig, inp, "ValueError", "accepted")
            else:
                hubbard_oracle(ctx, inp["lattice"], adj, H, inp["t"], inp["u"], inp["spin"], inp, 10)
        except ValueError as e:
            if sig == "hubbard:unexpected-refusal":
                ctx.fail(sig, inp, "a Hamiltonian", repr(e))
    elif kind == "molecular":
        L = inp["L"]
        c = complex(inp["c"]) if inp["c"].startswith("(") or "j" in inp["c"] else float(inp["c"])
        if isinstance(c, float) and c == int(c) and "." not in inp["c"]:
            c = int(c)
        tk = np.array([[complex(x) for x in r] for r in inp["tkin"]], dtype=complex).reshape((L, L))
        vi = np.array([complex(x) for x in inp["vint"]], dtype=complex).reshape((L,) * 4)
        if inp.get("dtype", "complex") != "complex":
            tk, vi = (a.real.astype(float if inp["dtype"] == "float" else np.int64) for a in (tk, vi))
        molecular_oracle(ctx, L, c, tk, vi, inp["herm"], inp["varch"], inp)
    elif kind == "probe":
        run_probe(ctx, inp)
    elif kind == "history":
        for s_, h, e, o in run_history(inp, 10):
            if s_ == sig:
                ctx.fail(s_, h, e, o)
    # a replay reports under the recorded signature
    if len(ctx.failing) > before:
        ctx.failing[before:] = [dict(ctx.failing[before], sig=sig)]
