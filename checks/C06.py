"""C06 - a gate's tensor network is its matrix, one axis pair per wire."""
import itertools, os, sys
import numpy as np
from vlib import coqterm as ct

sys.path.insert(0, os.path.join(os.path.dirname(os.path.dirname(os.path.abspath(__file__))), "gen"))

HEADER = "From Qib Require Import GateNet.GateNetCheck.\n"
TOL = 1e-12

SIG_WRAP = "as_tensornet:two-qubit-gate-wraps-4x4-matrix:open-axes-not-two-per-wire"

# ----------------------------------------------------------------------------- canonical forms
REF_NONE, REF_MAIN, REF_NEG, REF_POS, REF_X, REF_KET0 = -1, 0, 1, 2, 3, 4


def refcode(kind, dataref):
    """dataref string -> code of Qib.GateNet.GateNetModel (per gate kind)"""
    if dataref is None:
        return REF_NONE
    s = str(dataref)
    if kind == "ctrl":
        if s == "ctrl_cross_neg":
            return REF_NEG
        if s == "ctrl_cross_pos":
            return REF_POS
        if s == "PauliX":
            return REF_X
        if s.startswith("ctrl_"):
            return REF_MAIN
        return -9
    if kind == "prep":
        return REF_KET0 if s == "|0>_2" else REF_MAIN
    return REF_MAIN


def ndesc(kind, tnet):
    s = tnet.net
    ts = [ct.pair(ct.z(k), ct.pair(ct.z(t.tid), ct.lst([ct.nat(d) for d in t.shape]),
                                   ct.lst([ct.z(b) for b in t.bids]), ct.z(refcode(kind, t.dataref))))
          for k, t in s.tensors.items()]
    bs = [ct.pair(ct.z(k), ct.pair(ct.z(b.bid), ct.lst([ct.z(t) for t in b.tids]))) for k, b in s.bonds.items()]
    return ct.pair(ct.lst(ts), ct.lst(bs))


def obs(kind, f):
    """run the implementation: (coq term of the observation, network or None)"""
    try:
        net = f()
    except Exception as e:                     # noqa: the model says which inputs raise
        return "None", None, e
    return "(Some %s)" % ndesc(kind, net), net, None


def zlist(v):
    return ct.lst([ct.z(x) for x in v])


def sparse(full):
    flat = np.asarray(full).reshape(-1)
    nz = np.nonzero(flat)[0]
    return ct.lst([ct.pair(ct.nat(int(p)), ct.zi(flat[p])) for p in nz])


def exact(a):
    a = np.asarray(a, dtype=complex)
    return np.array_equal(a.real, np.round(a.real)) and np.array_equal(a.imag, np.round(a.imag))


def full_tensor(net):
    from qib.tensor_network.tensor_network import to_full_tensor
    cnt, amap = net.contract_einsum()
    return to_full_tensor(np.asarray(cnt), amap)


# ----------------------------------------------------------------------------- gates with exact matrices
def monomial(rng, n):
    """random monomial unitary with entries in {1,-1,i,-i}: exact in binary64"""
    d = 2 ** n
    perm = list(range(d))
    rng.shuffle(perm)
    m = np.zeros((d, d), dtype=complex)
    for r, c in enumerate(perm):
        m[r, c] = rng.choice([1, -1, 1j, -1j])
    return m


def exact_targets(rng, nt):
    import qib
    if nt == 1:
        pool = [("X", lambda: qib.PauliXGate()), ("Y", lambda: qib.PauliYGate()), ("Z", lambda: qib.PauliZGate()),
                ("S", lambda: qib.operator.SGate()), ("Sadj", lambda: qib.operator.SAdjGate())]
        name, mk = rng.choice(pool)
        return name, mk()
    m = monomial(rng, nt)
    return "General%d" % nt, qib.GeneralGate(m, nt)


def nest_term(chain, nt):
    """chain = [(nc, cs), ...] outermost first -> cnest term"""
    t = "(NLeaf %s)" % ct.z(nt)
    for nc, cs in reversed(chain):
        t = "(NCtrl %s %s %s)" % (ct.z(nc), zlist(cs), t)
    return t


def build_nested(chain, tgate):
    import qib
    g = tgate
    for nc, cs in reversed(chain):
        g = qib.ControlledGate(g, nc, cs)
    return g


# ----------------------------------------------------------------------------- oracle (independent of the model)
def oracle_gate(ctx, label, desc, gate, nwires, expect=None, prepare=None):
    """the property on the implementation: consistent, 2 open axes per wire (all of dimension 2,
    as many as 2*num_wires), full tensor reshaped == as_matrix()"""
    try:
        net = gate.as_tensornet()
    except Exception as e:
        ctx.fail(label + ":as_tensornet-raises:" + type(e).__name__, desc, "a network", repr(e))
        return None
    ok = True
    if not net.is_consistent():
        ctx.fail(label + ":network-inconsistent", desc, True, False)
        ok = False
    shp = tuple(net.shape)
    if net.num_open_axes != 2 * nwires or shp != 2 * nwires * (2,):
        sig = SIG_WRAP if label.startswith("wrap2q:") else label + ":open-axes-not-two-per-wire"
        ctx.fail(sig, desc, "%d open axes of dimension 2" % (2 * nwires), "shape %r" % (shp,))
        return None
    try:
        full = full_tensor(net)
    except Exception as e:
        ctx.fail(label + ":contract_einsum-raises:" + type(e).__name__, desc, "contracts", repr(e))
        return None
    ref = expect if expect is not None else np.asarray(gate.as_matrix())
    got = np.reshape(full, (2 ** nwires, 2 ** nwires))
    if prepare is None:
        if got.shape != ref.shape or not np.allclose(got, ref, rtol=0, atol=TOL):
            ctx.fail(label + ":network-value-differs-from-matrix", desc, "as_matrix()", "differs")
            ok = False
    else:
        x, tr = prepare
        e0 = np.zeros(2 ** nwires)
        e0[0] = 1
        rank1 = np.outer(e0, x) if tr else np.outer(x, e0)
        col = ref[0, :] if tr else ref[:, 0]
        if not np.allclose(got, rank1, rtol=0, atol=TOL):
            ctx.fail(label + ":network-is-not-x-times-bra0", desc, "|x><0..0|", "differs")
            ok = False
        if not np.allclose(col, x, rtol=0, atol=1e-10):
            ctx.fail(label + ":gate-disagrees-with-network-on-zero-input", desc, "column/row 0 = x", "differs")
            ok = False
    return net if ok else None


def qubits(n):
    import qib
    field = qib.field.Field(qib.field.ParticleType.QUBIT, qib.lattice.IntegerLattice((max(n, 1),), pbc=False))
    return [qib.field.Qubit(field, i) for i in range(n)]


def elementary_gates(rng):
    """(label, constructor, num_wires, two_qubit_wrap) for every gate class offering as_tensornet
    that is not composite"""
    import qib
    th = lambda: rng.uniform(-3, 3)
    one = [("Identity", lambda: qib.IdentityGate()), ("PauliX", lambda: qib.PauliXGate()),
           ("PauliY", lambda: qib.PauliYGate()), ("PauliZ", lambda: qib.PauliZGate()),
           ("Hadamard", lambda: qib.HadamardGate()), ("Sx", lambda: qib.operator.SxGate()),
           ("Rx", lambda: qib.RxGate(th())), ("Ry", lambda: qib.RyGate(th())), ("Rz", lambda: qib.RzGate(th())),
           ("Rotation", lambda: qib.RotationGate([th(), th(), th()])),
           ("S", lambda: qib.operator.SGate()), ("Sadj", lambda: qib.operator.SAdjGate()), ("T", lambda: qib.operator.TGate()),
           ("Tadj", lambda: qib.operator.TAdjGate())]
    q = qubits(2)
    two = [("Rxx", lambda: qib.RxxGate(th(), q[0], q[1])), ("Ryy", lambda: qib.RyyGate(th(), q[0], q[1])),
           ("Rzz", lambda: qib.RzzGate(th(), q[0], q[1])), ("ISwap", lambda: qib.ISwapGate(q[0], q[1]))]
    return one, two


# ----------------------------------------------------------------------------- multiplexers with trivial / repeated branches
IDENT_KINDS = {1: ["IdentityGate", "General", "RzGate(0)", "RxGate(0)", "PhaseFactor(0)", "General-real"],
               2: ["General", "PhaseFactor(0)", "General-real"]}


def mux_branch_gate(br, nt):
    """one target gate from its JSON description {"ctor", "mat"}"""
    import qib
    c = br["ctor"]
    if c == "IdentityGate":
        return qib.IdentityGate()
    if c == "RzGate(0)":
        return qib.RzGate(0.0)
    if c == "RxGate(0)":
        return qib.RxGate(0.0)
    if c == "PhaseFactor(0)":
        return qib.PhaseFactorGate(0.0, nt)
    if c == "General-real":
        return qib.GeneralGate(np.identity(2 ** nt), nt)
    if c == "General":
        return qib.GeneralGate(mat_of(br["mat"]), nt)
    if c == "PauliX":
        return qib.PauliXGate()
    if c == "PauliY":
        return qib.PauliYGate()
    if c == "PauliZ":
        return qib.PauliZGate()
    if c == "S":
        return qib.operator.SGate()
    if c == "Sadj":
        return qib.operator.SAdjGate()
    if c == "RyGate":
        return qib.RyGate(float(br["theta"]))
    raise ValueError(c)


def build_mux(spec):
    """spec (JSON) -> (gate, replay description, matrices of the branches taken from the target gates themselves).
    A branch {"same_as": j} is THE SAME OBJECT as branch j."""
    import qib
    nc, nt = spec["ncontrols"], spec["ntargets"]
    gates = []
    for br in spec["branches"]:
        if br.get("same_as") is not None:
            gates.append(gates[br["same_as"]])
        else:
            gates.append(mux_branch_gate(br, nt))
    mats = [np.asarray(g.as_matrix(), dtype=complex) for g in gates]
    gate = qib.MultiplexedGate(gates, nc)
    return gate, dict(spec, kind="mux-sparse"), mats


def mux_oracle(ctx, desc, gate, mats):
    """multiplexer = block diagonal of the branch matrices, control 0 = most significant bit of the branch index
    (computed here from the branch matrices, not from MultiplexedGate.as_matrix)"""
    nc, nt = desc["ncontrols"], desc["ntargets"]
    d = 2 ** nt
    want = np.zeros((d * len(mats), d * len(mats)), dtype=complex)
    for k, m in enumerate(mats):
        want[k * d:(k + 1) * d, k * d:(k + 1) * d] = m
    try:
        am = np.asarray(gate.as_matrix())
    except Exception as e:
        ctx.fail("mux:as_matrix-raises:" + type(e).__name__, desc, "a matrix", repr(e))
        am = None
    if am is not None and (am.shape != want.shape or not np.allclose(am, want, rtol=0, atol=TOL)):
        ctx.fail("mux:as_matrix-differs-from-block-diagonal", desc, "block_diag(branches)", "differs")
    return oracle_gate(ctx, "mux", desc, gate, nc + nt, expect=want)


def sparse_mux_specs(rng, thorough):
    """multiplexers whose branches are identities (of several kinds) except for a few, at EVERY branch index;
    repeated targets (same object / equal objects)"""
    def ident(nt):
        k = rng.choice(IDENT_KINDS[nt])
        if k == "General":
            return {"ctor": "General", "mat": mat_desc(np.identity(2 ** nt))}
        return {"ctor": k}

    def nontrivial(nt, floaty=False):
        if floaty and nt == 1:
            return {"ctor": "RyGate", "theta": round(rng.uniform(0.3, 2.8), 3)}
        if nt == 1 and rng.random() < 0.6:
            return {"ctor": rng.choice(["PauliX", "PauliY", "PauliZ", "S", "Sadj"])}
        while True:
            m = monomial(rng, nt)
            if not np.array_equal(m, np.identity(2 ** nt)):
                break
        if rng.random() < 0.15:
            m = -np.identity(2 ** nt, dtype=complex)          # identity up to a phase is NOT a trivial branch
        return {"ctor": "General", "mat": mat_desc(m)}

    def spec(family, nc, nt, branches):
        return {"family": family, "ncontrols": nc, "ntargets": nt, "branches": branches}

    out = []
    reps = 2 if thorough else 1
    for _ in range(reps):
        for nc, nt in [(2, 1), (3, 1), (4, 1), (2, 2), (3, 2)] + ([(4, 2)] if thorough else []):
            nb = 2 ** nc
            # exactly one non-trivial branch, every index
            for k in range(nb):
                out.append(spec("single-branch", nc, nt, [nontrivial(nt) if j == k else ident(nt) for j in range(nb)]))
            # exactly one trivial branch
            k = rng.randrange(nb)
            out.append(spec("single-identity", nc, nt, [ident(nt) if j == k else nontrivial(nt) for j in range(nb)]))
            # two non-trivial branches
            for _r in range(2):
                a, b = rng.sample(range(nb), 2)
                out.append(spec("two-branches", nc, nt, [nontrivial(nt) if j in (a, b) else ident(nt) for j in range(nb)]))
            # the same OBJECT in several branches (identity elsewhere), and in all branches
            for _r in range(2):
                ks = sorted(rng.sample(range(nb), rng.randint(2, max(2, nb // 2))))
                brs = []
                for j in range(nb):
                    if j == ks[0]:
                        brs.append(nontrivial(nt))
                    elif j in ks:
                        brs.append({"same_as": ks[0]})
                    else:
                        brs.append(ident(nt))
                out.append(spec("repeated-object", nc, nt, brs))
            out.append(spec("same-object-everywhere", nc, nt, [nontrivial(nt)] + [{"same_as": 0}] * (nb - 1)))
            # one identity OBJECT shared by all trivial branches, one active branch
            k = rng.randrange(1, nb)
            brs = [ident(nt)] + [{"same_as": 0}] * (nb - 1)
            brs[k] = nontrivial(nt)
            out.append(spec("shared-identity-object", nc, nt, brs))
            out.append(spec("all-identity", nc, nt, [ident(nt) for _ in range(nb)]))
        # float data (oracle only): one rotation at every index
        for nc in (2, 3):
            for k in range(2 ** nc):
                out.append(spec("single-branch-float", nc, 1, [nontrivial(1, True) if j == k else {"ctor": "IdentityGate"}
                                                                  for j in range(2 ** nc)]))
    return out


# ----------------------------------------------------------------------------- prepare gates: directed vectors
def prep_vectors(rng, n, thorough):
    """(family, vector) - zeros at the front / back / in between, basis states, negative entries"""
    d = 2 ** n
    out = []
    for k in range(d):
        e = np.zeros(d)
        e[k] = 1.0
        out.append(("basis-state", e))
        if k in (0, 1, d - 1):
            out.append(("negative-basis-state", -e))
    for z in range(1, d):
        v = np.array([0.0] * z + [(-1.0) ** j * (j + 1) for j in range(d - z)])
        out.append(("leading-zeros", v))
        out.append(("trailing-zeros", v[::-1].copy()))
    v = np.array([float(j % 2) * (j + 1) * (-1.0) ** (j // 2) for j in range(d)])
    out.append(("alternating-zeros(first-zero)", v))
    out.append(("alternating-zeros(first-nonzero)", np.roll(v, 1)))
    out.append(("all-negative", -np.arange(1.0, d + 1)))
    out.append(("negative-first", np.array([-1.0] + [float(j + 1) for j in range(1, d)])))
    out.append(("negative-zero-first", np.array([-0.0] + [float(j + 1) * (-1.0) ** j for j in range(1, d)])))
    out.append(("tiny-first", np.array([1e-300] + [1.0] * (d - 1))))
    for _ in range(4 if thorough else 2):
        v = np.array([rng.uniform(-1, 1) for _ in range(d)])
        for j in rng.sample(range(d), rng.randint(1, d - 1)):
            v[j] = 0.0
        out.append(("random-with-zeros", v))
    return out


def prep_case(ctx, vec, n, tr, derive, family):
    """PrepareGate(vec, n, tr) (derive: plain / inverse / inverse-inverse) against the documented exception:
    network = |x><0..0| (transposed: |0..0><x|) and the gate's matrix agrees with it on the all-zero input"""
    import qib
    desc = {"kind": "prep", "nqubits": n, "transpose": tr, "vec": [float(v) for v in vec], "derive": derive, "family": family}
    try:
        gate = qib.PrepareGate(np.array(vec, dtype=float), n, transpose=tr)
        if derive == "inverse":
            gate = qib.PrepareGate(np.array(vec, dtype=float), n, transpose=not tr).inverse()
        elif derive == "inverse-inverse":
            gate = gate.inverse().inverse()
    except Exception as e:
        ctx.fail("prep:construction-raises:" + type(e).__name__, desc, "a gate", repr(e))
        return None, None
    v1 = np.array(vec, dtype=float)
    v1 = v1 / np.abs(v1).sum()
    x = np.sign(v1) * np.sqrt(np.abs(v1))          # from the input vector, not from gate.vec
    if gate.transpose != tr:
        ctx.fail("prep:derived-gate-has-wrong-orientation", desc, tr, gate.transpose)
    try:
        am = np.asarray(gate.as_matrix())
    except Exception as e:
        ctx.fail("prep:as_matrix-raises:" + type(e).__name__, desc, "a matrix", repr(e))
        return None, None
    if am.shape != (2 ** n, 2 ** n) or not np.allclose(am @ am.conj().T, np.identity(2 ** n), rtol=0, atol=1e-10):
        ctx.fail("prep:as_matrix-not-unitary", desc, "unitary", "differs")
    net = oracle_gate(ctx, "prep", desc, gate, n, prepare=(x, tr))
    return gate, net
# ----------------------------------------------------------------------------- memory layouts and derivations
LAYOUTS = ["C", "F", "T-view-of-C", "strided-view", "negative-stride", "complex64", "float64"]
DERIVES = ["plain", "inverse", "copy", "inverse-inverse", "ctrl[1]", "ctrl[0]", "mux", "ctrl-of-inverse"]


def signed_perm(rng, n):
    """real monomial unitary (entries +-1), not symmetric under reversing the wire order for n >= 2"""
    d = 2 ** n
    perm = list(range(d))
    rng.shuffle(perm)
    m = np.zeros((d, d))
    for r, c in enumerate(perm):
        m[r, c] = rng.choice([1.0, -1.0])
    return m


def lay_out(U, layout):
    """the same matrix, stored differently (np.array_equal(result, U) holds for every layout)"""
    U = np.asarray(U)
    if layout == "C":
        return np.ascontiguousarray(U)
    if layout == "F":
        return np.asfortranarray(U)
    if layout == "T-view-of-C":
        return np.ascontiguousarray(U.T).T
    if layout == "strided-view":
        big = np.zeros((2 * U.shape[0], 2 * U.shape[1]), dtype=U.dtype)
        big[::2, ::2] = U
        return big[::2, ::2]
    if layout == "negative-stride":
        return np.ascontiguousarray(U[::-1, :])[::-1, :]
    if layout == "complex64":
        return U.astype(np.complex64)
    if layout == "float64":
        return np.ascontiguousarray(U.real.astype(np.float64))
    raise ValueError(layout)


def derive_gate(V, n, derive):
    """a gate (and its number of wires) obtained from GeneralGate(V, n) through the public API"""
    import qib, copy
    g = qib.GeneralGate(V, n)
    if derive == "plain":
        return g, n
    if derive == "inverse":
        return g.inverse(), n
    if derive == "copy":
        g.on(qubits(n))          # (GeneralGate.__copy__ of a gate without particles raises: outside this property)
        return copy.copy(g), n
    if derive == "inverse-inverse":
        return g.inverse().inverse(), n
    if derive == "ctrl[1]":
        return qib.ControlledGate(g, 1, [1]), n + 1
    if derive == "ctrl[0]":
        return qib.ControlledGate(g, 1, [0]), n + 1
    if derive == "ctrl-of-inverse":
        return qib.ControlledGate(g.inverse(), 2, [0, 1]), n + 2
    if derive == "mux":
        return qib.MultiplexedGate([g, g.inverse()], 1), n + 1
    raise ValueError(derive)


def expected_of(U, n, derive):
    """the matrix the derived gate must have, computed from U alone (independent of as_matrix)"""
    U = np.asarray(U, dtype=complex)
    Ud = U.conj().T
    d = 2 ** n
    I = np.identity(d)
    Z = np.zeros((d, d))
    if derive in ("plain", "copy", "inverse-inverse"):
        return U
    if derive == "inverse":
        return Ud
    if derive == "ctrl[1]":
        return np.block([[I, Z], [Z, U]])
    if derive == "ctrl[0]":
        return np.block([[U, Z], [Z, I]])
    if derive == "mux":
        return np.block([[U, Z], [Z, Ud]])
    if derive == "ctrl-of-inverse":          # controls (0,1): active on control bits 01
        blocks = [I, Ud, I, I]
        out = np.zeros((4 * d, 4 * d), dtype=complex)
        for k, b in enumerate(blocks):
            out[k * d:(k + 1) * d, k * d:(k + 1) * d] = b
        return out
    raise ValueError(derive)


def layout_case(ctx, U, n, layout, derive):
    desc = {"kind": "layout", "nwires": n, "mat": mat_desc(U), "layout": layout, "derive": derive}
    V = lay_out(U, layout)
    if not np.array_equal(V, U):
        ctx.fail("generator:layout-changes-the-matrix", desc, "equal", "differs")
        return
    try:
        gate, w = derive_gate(V, n, derive)
    except Exception as e:
        ctx.fail("layout:gate-construction-raises:" + type(e).__name__, desc, "a gate", repr(e))
        return
    want = expected_of(U, n, derive)
    am = np.asarray(gate.as_matrix())
    if am.shape != want.shape or not np.allclose(am, want, rtol=0, atol=1e-6):
        ctx.fail("layout:as_matrix-differs-from-definition", desc, "definition", "differs")
    oracle_gate(ctx, "layout", desc, gate, w)
    ctx.count("layout_%s" % layout)
    ctx.count("derive_%s" % derive)


def layout_sweep(ctx):
    rng = ctx.rng
    for n in (1, 2, 3):
        mats = [("monomial", monomial(rng, n)), ("signed-perm", signed_perm(rng, n))]
        if ctx.thorough:
            mats.append(("monomial", monomial(rng, n)))
        for mname, U in mats:
            for layout in LAYOUTS:
                if layout == "float64" and np.iscomplexobj(U) and np.abs(np.asarray(U).imag).max() > 0:
                    continue
                for derive in DERIVES:
                    if n == 3 and derive == "ctrl-of-inverse" and not ctx.thorough:
                        continue
                    layout_case(ctx, U, n, layout, derive)


# ----------------------------------------------------------------------------- composites over EVERY target class
# A composite's network is made from what its targets REPORT.  For most classes the target's own network and its matrix say the
# same, so a composite may use either - but not for all (PrepareGate's network is the rank-one map, the documented exception;
# two-qubit rotations wrap a 4x4 matrix; BlockEncodingGate has no network at all).  So controlled / multiplexed / nested gates
# are built over every gate class of qib.operator, and their network is compared with the matrix computed here from the
# matrices the LEAVES report (bitwise control pattern, block diagonal), and with their own as_matrix().
def cleaf_gate(d):
    import qib
    t = d["t"]
    one = {"Identity": qib.IdentityGate, "PauliX": qib.PauliXGate, "PauliY": qib.PauliYGate, "PauliZ": qib.PauliZGate,
           "Hadamard": qib.HadamardGate, "Sx": qib.operator.SxGate, "S": qib.operator.SGate, "Sadj": qib.operator.SAdjGate,
           "T": qib.operator.TGate, "Tadj": qib.operator.TAdjGate}
    if t in one:
        return one[t](), 1
    if t in ("Rx", "Ry", "Rz"):
        return {"Rx": qib.RxGate, "Ry": qib.RyGate, "Rz": qib.RzGate}[t](d["theta"]), 1
    if t == "Rotation":
        return qib.RotationGate(list(d["ntheta"])), 1
    if t in ("Rxx", "Ryy", "Rzz"):
        q = qubits(2)
        return {"Rxx": qib.RxxGate, "Ryy": qib.RyyGate, "Rzz": qib.RzzGate}[t](d["theta"], q[0], q[1]), 2
    if t == "ISwap":
        q = qubits(2)
        return qib.ISwapGate(q[0], q[1]), 2
    if t == "General":
        return qib.GeneralGate(mat_of(d["mat"]), d["n"]), d["n"]
    if t == "Prepare":
        g = qib.PrepareGate(np.array(d["vec"], dtype=float), d["n"], transpose=d["tr"])
        return (g.inverse() if d.get("inv") else g), d["n"]
    if t == "PhaseFactor":
        return qib.PhaseFactorGate(d["phi"], d["n"]), d["n"]
    if t == "TimeEvolution(FieldOperator)":
        n = d["n"]
        fld = qib.field.Field(qib.field.ParticleType.FERMION, qib.lattice.IntegerLattice((n,), pbc=False))
        term = qib.operator.FieldOperatorTerm([qib.operator.IFODesc(fld, qib.operator.IFOType.FERMI_CREATE),
                                               qib.operator.IFODesc(fld, qib.operator.IFOType.FERMI_ANNIHIL)], mat_of(d["coeffs"]))
        return qib.TimeEvolutionGate(qib.FieldOperator([term]), d["time"]), n
    if t == "TimeEvolution(Heisenberg)":
        n = d["n"]
        fld = qib.field.Field(qib.field.ParticleType.QUBIT, qib.lattice.IntegerLattice((n,), pbc=False))
        return qib.TimeEvolutionGate(qib.operator.HeisenbergHamiltonian(fld, list(d["J"]), list(d["h"])), d["time"]), n
    if t == "BlockEncoding":
        P = qib.operator
        op = P.PauliOperator([P.WeightedPauliString(P.PauliString.from_string(s), w) for s, w in d["terms"]])
        op.set_field(qib.field.Field(qib.field.ParticleType.QUBIT, qib.lattice.IntegerLattice((d["n"],), pbc=False)))
        return qib.BlockEncodingGate(op, P.BlockEncodingMethod[d["method"]]), d["n"] + 1
    raise ValueError(t)


def ctree_build(s):
    """spec -> (gate, wires, reference matrix from the matrices the leaves report)"""
    import qib
    if s["t"] == "ctrl":
        g, w, U = ctree_build(s["g"])
        cs = [int(b) for b in s["cs"]]
        nc, d = len(cs), U.shape[0]
        k = 0
        for b in cs:
            k = 2 * k + b                                  # control 0 = most significant bit
        M = np.identity(d * 2 ** nc, dtype=complex)
        M[k * d:(k + 1) * d, k * d:(k + 1) * d] = U
        return qib.ControlledGate(g, nc, cs), nc + w, M
    if s["t"] == "mux":
        parts = [ctree_build(x) for x in s["gs"]]
        d = parts[0][2].shape[0]
        M = np.zeros((d * len(parts),) * 2, dtype=complex)
        for k, (_, _, U) in enumerate(parts):
            M[k * d:(k + 1) * d, k * d:(k + 1) * d] = U
        return qib.MultiplexedGate([p[0] for p in parts], s["nc"]), s["nc"] + parts[0][1], M
    g, w = cleaf_gate(s)
    return g, w, np.asarray(g.as_matrix(), dtype=complex)


def ctree_kinds(s):
    if s["t"] == "ctrl":
        return "ctrl%s(%s)" % ("".join(str(b) for b in s["cs"]), ctree_kinds(s["g"]))
    if s["t"] == "mux":
        return "mux%d[%s]" % (s["nc"], ",".join(ctree_kinds(x) for x in s["gs"]))
    return s["t"]


def composite_leaf_pairs(rng):
    """(leaf, partner of the same class and width) for every gate class of qib.operator"""
    th = lambda: round(rng.uniform(-3, 3), 3)
    r = 1 / np.sqrt(2)
    pairs = []
    consts = ["Identity", "PauliX", "PauliY", "PauliZ", "Hadamard", "Sx", "S", "Sadj", "T", "Tadj"]
    for k, nm in enumerate(consts):
        pairs.append(({"t": nm}, {"t": consts[(k + 3) % len(consts)]}))
    for nm in ("Rx", "Ry", "Rz"):
        pairs.append(({"t": nm, "theta": th()}, {"t": nm, "theta": th()}))
    pairs.append(({"t": "Rotation", "ntheta": [th(), th(), th()]}, {"t": "Rotation", "ntheta": [th(), th(), th()]}))
    for nm in ("Rxx", "Ryy", "Rzz"):
        pairs.append(({"t": nm, "theta": th()}, {"t": nm, "theta": th()}))
    pairs.append(({"t": "ISwap"}, {"t": "Rzz", "theta": th()}))
    for n in (1, 2):
        pairs.append(({"t": "General", "n": n, "mat": mat_desc(monomial(rng, n))}, {"t": "General", "n": n, "mat": mat_desc(signed_perm(rng, n))}))
    dense1 = np.array([[r, r * 1j], [r * 1j, r]])
    pairs.append(({"t": "General", "n": 1, "mat": mat_desc(dense1)}, {"t": "General", "n": 1, "mat": mat_desc(dense1.conj().T)}))
    for n, v, v2 in ((1, [0.25, -0.75], [1.0, 0.0]), (1, [0.0, 1.0], [-0.5, 0.5]), (2, [0.0, 0.5, -0.25, 0.25], [1.0, 2.0, -3.0, 4.0]),
                     (2, [0.0, 0.0, 0.0, 1.0], [0.25, 0.25, 0.25, 0.25])):
        for tr in (False, True):
            pairs.append(({"t": "Prepare", "n": n, "vec": v, "tr": tr}, {"t": "Prepare", "n": n, "vec": v2, "tr": not tr}))
    pairs.append(({"t": "Prepare", "n": 1, "vec": [round(rng.uniform(-1, 1), 3), round(rng.uniform(0.1, 1), 3)], "tr": False, "inv": True},
                  {"t": "Prepare", "n": 1, "vec": [0.5, 0.5], "tr": True}))
    for n in (1, 2):
        pairs.append(({"t": "PhaseFactor", "n": n, "phi": th()}, {"t": "PhaseFactor", "n": n, "phi": 0.0}))
    co = np.array([[0.3, 0.2 - 0.5j], [0.2 + 0.5j, -0.7]])
    pairs.append(({"t": "TimeEvolution(FieldOperator)", "n": 2, "coeffs": mat_desc(co), "time": 0.7},
                  {"t": "TimeEvolution(FieldOperator)", "n": 2, "coeffs": mat_desc(co.conj()), "time": -0.4}))
    pairs.append(({"t": "TimeEvolution(Heisenberg)", "n": 2, "J": [0.3, -0.8, 0.5], "h": [0.2, 0.1, -0.4], "time": 0.6},
                  {"t": "TimeEvolution(Heisenberg)", "n": 2, "J": [1.0, 0.0, 0.0], "h": [0.0, 0.0, 0.5], "time": 1.1}))
    for m in ("Wx", "Wxi", "R"):
        pairs.append(({"t": "BlockEncoding", "n": 1, "method": m, "terms": [["X", 0.3], ["Z", -0.4]]},
                      {"t": "BlockEncoding", "n": 1, "method": m, "terms": [["Y", 0.5]]}))
    return pairs


def composite_specs(rng, thorough):
    out = []
    for a, b in composite_leaf_pairs(rng):
        w = cleaf_gate(a)[1]
        C = lambda cs, g: {"t": "ctrl", "cs": cs, "g": g}
        M = lambda nc, gs: {"t": "mux", "nc": nc, "gs": gs}
        specs = [C([1], a), C([0], a), C([1, 0], a), C([1], C([0], a)), M(1, [a, b]), M(1, [b, a]), C([1], M(1, [a, b])),
                 M(1, [C([1], a), C([0], b)]), C([0], M(1, [b, a]))]
        if w == 1:
            specs += [C([0, 1, 1], a), M(2, [a, b, b, a]), C([1], C([0], C([1], a))), M(1, [M(1, [a, b]), M(1, [b, b])])]
        elif thorough:
            specs += [M(2, [a, b, b, a])]
        out += specs
    return out


def composite_case(ctx, spec):
    desc = {"kind": "composite", "spec": spec, "shape": ctree_kinds(spec)}
    try:
        gate, w, want = ctree_build(spec)
    except Exception as e:
        ctx.fail("composite:construction-raises:" + type(e).__name__, desc, "a gate", repr(e))
        return
    try:
        am = np.asarray(gate.as_matrix())
    except Exception as e:
        ctx.fail("composite:as_matrix-raises:" + type(e).__name__, desc, "a matrix", repr(e))
        return
    if am.shape != want.shape or not np.allclose(am, want, rtol=0, atol=1e-10):
        ctx.fail("composite:as_matrix-differs-from-the-matrix-built-from-the-leaves", desc, "control pattern / block diagonal of the leaf matrices", "differs")
    # the network against the gate's own matrix (the property) and against the reference built from the leaves
    oracle_gate(ctx, "composite", desc, gate, w)
    oracle_gate(ctx, "composite(reference)", desc, gate, w, expect=want)


def composite_sweep(ctx):
    import inspect
    import qib.operator as qop
    pairs = composite_leaf_pairs(ctx.rng)
    have = {type(cleaf_gate(a)[0]).__name__ for a, _ in pairs}
    missing = sorted(n for n, c in vars(qop).items() if inspect.isclass(c) and issubclass(c, qop.Gate) and c is not qop.Gate
                     and not inspect.isabstract(c) and n not in have and n not in ("ControlledGate", "MultiplexedGate"))
    ctx.oblige("composite-targets:every-gate-class-is-a-target", "correspondence", not missing, "no target spec for: %s" % ", ".join(missing))
    for spec in composite_specs(ctx.rng, ctx.thorough):
        ctx.count("composite_over_" + ctree_kinds(spec).split("(")[-1].split("[")[-1].split(",")[0].rstrip(")]"))
        composite_case(ctx, spec)
        ctx.nontriv({"kind": "composite", "shape": ctree_kinds(spec), "spec": repr(spec)[:700]})


# ----------------------------------------------------------------------------- histories
def net_snapshot(net):
    return ([(k, t.tid, tuple(t.shape), tuple(t.bids), t.dataref) for k, t in net.net.tensors.items()],
            [(k, b.bid, tuple(b.tids)) for k, b in net.net.bonds.items()],
            {k: np.array(v, copy=True) for k, v in net.data.items()})


def net_unchanged(net, snap):
    cur = net_snapshot(net)
    return cur[0] == snap[0] and cur[1] == snap[1] and set(cur[2]) == set(snap[2]) \
        and all(np.array_equal(cur[2][k], snap[2][k]) for k in snap[2])


def history_cases(rng):
    """name -> (build, number of wires, [(step, mutate(gate) -> array written in place or None)]).
    Every step changes the gate through attributes the classes expose; after each step the network
    requested THEN must be the matrix reported THEN."""
    import qib
    q = qubits(6)
    th = lambda: round(rng.uniform(-3, 3), 3)
    U2 = [monomial(rng, 2) for _ in range(3)]
    out = {}

    def setter(attr, val):
        def f(g):
            setattr(g, attr, val() if callable(val) else val)
        return f

    for name, cls in (("RxGate", qib.RxGate), ("RyGate", qib.RyGate), ("RzGate", qib.RzGate)):
        out[name] = (lambda cls=cls: cls(th(), q[0]), 1,
                     [("set-theta", setter("theta", th)), ("rebind", lambda g: g.on(q[2]) and None), ("set-theta-again", setter("theta", th))])
    out["RotationGate"] = (lambda: qib.RotationGate([th(), th(), th()], q[0]), 1,
                           [("assign-ntheta", setter("ntheta", lambda: np.array([th(), th(), th()]))),
                            ("write-ntheta-in-place", lambda g: (g.ntheta.__setitem__(0, g.ntheta[0] + 0.5), g.ntheta)[1])])
    out["PhaseFactorGate"] = (lambda: qib.PhaseFactorGate(th(), 2), 2,
                              [("set-phi", setter("phi", th)), ("rebind", lambda g: g.on([q[0], q[3]]) and None), ("set-phi-again", setter("phi", th))])
    out["GeneralGate"] = (lambda: qib.GeneralGate(U2[0].copy(), 2), 2,
                          [("assign-mat-fortran", setter("mat", np.asfortranarray(U2[1]))),
                           ("assign-mat-transposed-view", setter("mat", np.ascontiguousarray(U2[2].T).T)),
                           ("rebind", lambda g: g.on([q[1], q[0]]) and None),
                           ("write-mat-in-place", lambda g: (g.mat.__setitem__(Ellipsis, U2[0]), g.mat)[1])])
    out["ControlledGate"] = (lambda: qib.ControlledGate(qib.RyGate(th()), 2, [1, 0]), 3,
                             [("set-target-theta", lambda g: setattr(g.tgate, "theta", th())),
                              ("set-ctrl_state", setter("ctrl_state", [0, 0])),
                              ("replace-target", setter("tgate", lambda: qib.GeneralGate(np.asfortranarray(monomial(rng, 1)), 1))),
                              ("set-ctrl_state-again", setter("ctrl_state", [0, 1]))])
    out["ControlledGate(GeneralGate2)"] = (lambda: qib.ControlledGate(qib.GeneralGate(U2[0].copy(), 2), 1, [1]), 3,
                                           [("assign-target-mat-fortran", lambda g: setattr(g.tgate, "mat", np.asfortranarray(U2[1]))),
                                            ("replace-target-by-its-inverse", lambda g: setattr(g, "tgate", g.tgate.inverse()))])
    out["MultiplexedGate"] = (lambda: qib.MultiplexedGate([qib.RxGate(th()), qib.RzGate(th())], 1), 2,
                              [("set-target-theta", lambda g: setattr(g.tgates[0], "theta", th())),
                               ("replace-target", lambda g: g.tgates.__setitem__(1, qib.GeneralGate(monomial(rng, 1), 1)))])

    def mk_tevo_fermi():
        latt = qib.lattice.IntegerLattice((2,), pbc=False)
        fld = qib.field.Field(qib.field.ParticleType.FERMION, latt)
        co = np.array([[0.3, 0.2 - 0.5j], [0.2 + 0.5j, -0.7]])
        term = qib.operator.FieldOperatorTerm([qib.operator.IFODesc(fld, qib.operator.IFOType.FERMI_CREATE),
                                               qib.operator.IFODesc(fld, qib.operator.IFOType.FERMI_ANNIHIL)], co)
        return qib.TimeEvolutionGate(qib.FieldOperator([term]), 0.7)

    def mk_tevo_heis():
        latt = qib.lattice.IntegerLattice((3,), pbc=True)
        fld = qib.field.Field(qib.field.ParticleType.QUBIT, latt)
        return qib.TimeEvolutionGate(qib.operator.HeisenbergHamiltonian(fld, [0.3, -0.8, 0.5], [0.2, 0.1, -0.4]), 0.6)

    def scale_coeffs(g):
        c = g.h.terms[0].coeffs
        c *= 0.5
        return c

    def heis_params(g):
        g.h.J = type(g.h.J)(x / 1.7 for x in g.h.J) if isinstance(g.h.J, (list, tuple)) else g.h.J / 1.7
        g.h.h = type(g.h.h)(x / 1.7 for x in g.h.h) if isinstance(g.h.h, (list, tuple)) else g.h.h / 1.7

    def assign_h_fermi(g):
        g.h = mk_tevo_fermi().h
        scale_coeffs(g)

    out["TimeEvolutionGate(FieldOperator)"] = (mk_tevo_fermi, 2,
                                               [("set-t", setter("t", 0.4)), ("scale-coefficients-in-place", scale_coeffs),
                                                ("assign-h", assign_h_fermi),
                                                ("set-t-back", setter("t", 0.7))])
    out["TimeEvolutionGate(Heisenberg)"] = (mk_tevo_heis, 3,
                                            [("rescale-J-and-h", heis_params), ("set-t", setter("t", 0.25)),
                                             ("assign-h", lambda g: setattr(g, "h", mk_tevo_heis().h)), ("rescale-J-and-h-again", heis_params)])
    out["ControlledGate(TimeEvolutionGate)"] = (lambda: qib.ControlledGate(mk_tevo_fermi(), 1, [1]), 3,
                                                [("scale-target-coefficients-in-place", lambda g: scale_coeffs(g.tgate)),
                                                 ("set-target-t", lambda g: setattr(g.tgate, "t", 0.3))])
    return out


def run_history(ctx, name, seed):
    import random
    rng = random.Random(seed)
    cases = history_cases(rng)
    build, w, steps = cases[name]
    desc0 = {"kind": "gate-history", "case": name, "hseed": seed}
    try:
        gate = build()
    except Exception as e:
        ctx.fail("history:%s:construction-raises:%s" % (name, type(e).__name__), desc0, "a gate", repr(e))
        return
    prev = oracle_gate(ctx, "history:" + name, dict(desc0, step="initial"), gate, w)
    for step, mut in steps:
        desc = dict(desc0, step=step)
        snap = net_snapshot(prev) if prev is not None else None
        try:
            written = mut(gate)
        except Exception as e:
            ctx.fail("history:%s:mutation-raises:%s" % (name, type(e).__name__), desc, "attribute update", repr(e))
            return
        cur = oracle_gate(ctx, "history:" + name, desc, gate, w)
        if prev is not None and snap is not None:
            aliased = isinstance(written, np.ndarray) and any(np.shares_memory(v, written) for v in prev.data.values()
                                                                 if isinstance(v, np.ndarray))
            if not aliased and not net_unchanged(prev, snap):
                ctx.fail("history:%s:earlier-network-object-changed" % name, desc, "unchanged", "changed")
        prev = cur
        ctx.count("gate_history_steps")


def history_sweep(ctx):
    import random
    names = sorted(history_cases(random.Random(0)))
    for name in names:
        for rep in range(3 if ctx.thorough else 1):
            run_history(ctx, name, ctx.rng.randrange(10 ** 9))
        ctx.count("gate_histories")


# ----------------------------------------------------------------------------- run
def run(ctx):
    import qib
    import gatenet as gen_gatenet
    ctx.trusted.append("C06: the build programs of wrap / ControlledGate / MultiplexedGate / PhaseFactorGate / PrepareGate "
                       "networks, the cross-tensor entries, the Pauli-X and |0> literals and the wrap/reshape call of every "
                       "elementary gate are regenerated from the source (gen/gatenet.py) and proved equal to the model; the "
                       "tensor DATA (np.stack of identity and target, np.reshape row-major, np.zeros + entries) and the "
                       "symbolic-network engine (is_consistent, contract_einsum, to_full_tensor = TN model defining sum) "
                       "are hand-modelled and tied by correspondence")
    ctx.assumes.append("ncontrols >= 1 and len(ctrl_state) == ncontrols (the constructor enforces the latter); tensor data are "
                       "ring elements (exact arithmetic); the prepare vector x is real")
    ctx.lib(["GateNet/GateNetCheck", "GateNet/GateNetProofs", "TN/TNEinsumPort"])
    ctx.log("library built")
    ok_tr = ctx.translate("GenGateNet", gen_gatenet.generate)
    if ok_tr:
        ok, _ = ctx.props()
        if ok and ctx.thorough:
            ctx.coqchk()
    else:
        ctx.oblige("props:C06", "theorem", False, "not compiled: translator failed")
    ctx.log("theorems checked")
    ctx.rules.append("layouts: GeneralGate on 1-3 wires from a non-symmetric monomial / signed permutation stored as " + ", ".join(LAYOUTS)
                     + "; taken " + ", ".join(DERIVES) + "; network vs as_matrix() and as_matrix() vs the definition. "
                     "histories: as_tensornet -> change parameters / by-reference operator (in place and by assignment) / particles -> "
                     "as_tensornet again for every parametrised or composite class, each network vs as_matrix() at that moment, "
                     "the earlier network object unchanged (unless it aliases the array written in place)")
    layout_sweep(ctx)
    history_sweep(ctx)
    ctx.rules.append("composites over every target class: controlled ([1], [0], [1,0], [0,1,1], nested 2-3 levels), multiplexed (1-2 controls, both "
                     "orders, nested) and mixed (controlled multiplexer, multiplexer of controlled gates) over EVERY gate class of qib.operator "
                     "found by introspection (constant and rotation gates, two-qubit rotations, ISwap, General monomial / dense, Prepare on "
                     "1-2 qubits plain / transposed / inverse / basis states, PhaseFactor, TimeEvolution over a FieldOperator and over a "
                     "Heisenberg Hamiltonian, BlockEncoding Wx / Wxi / R): network value vs as_matrix() and vs the matrix built here from the "
                     "matrices the leaves report")
    composite_sweep(ctx)
    ctx.log("layouts, histories and composites done")
    sweep(ctx)


def sweep(ctx):
    import qib
    rng = ctx.rng
    cases = []

    def add(term, desc, nontrivial=True):
        cases.append((term, desc))
        if nontrivial:
            ctx.nontriv(desc)
        ctx.sample(desc)

    maxc = 6
    ctx.rules.append("controlled gates: ALL control patterns with 1..%d controls x 1..2 targets (structure, exact), values for "
                     "all patterns with <= 3 controls (thorough: <= 4) and a seeded sample of the larger ones, exact monomial targets; "
                     "nested controlled gates (2-3 levels); multiplexers 1..3 controls x 1..2 targets; phase factors 1..4 wires; "
                     "multiplexers with identity branches (IdentityGate / GeneralGate(I) / Rz(0) / Rx(0) / PhaseFactor(0)): exactly one "
                     "non-trivial branch at EVERY index for 2-4 controls, one trivial branch, two non-trivial, the same target object in "
                     "several / all branches, one shared identity object, all identity; value against block_diag of the branch matrices; "
                     "prepare 1..3 qubits both orientations + directed vectors (every basis state e_k and -e_k, 1..d-1 leading / trailing "
                     "zeros, alternating zeros, -0.0 / 1e-300 first, all negative, random with zeros), plain / inverse() / inverse().inverse(): "
                     "network = |x><0..0|, as_matrix unitary with column (row) 0 = x; every elementary gate class. non-trivial = a network with at "
                     "least one contracted or shared bond (everything except single-tensor wraps)" % maxc)

    # ------------------------------------------------------------------ controlled gates
    for nc in range(1, maxc + 1):
        for nt in (1, 2):
            pats = list(itertools.product((0, 1), repeat=nc))
            for cs in pats:
                cs = list(cs)
                name, tg = exact_targets(rng, nt)
                gate = qib.ControlledGate(tg, nc, cs)
                desc = {"kind": "ctrl", "ctrl_state": cs, "ntargets": nt, "target": name,
                        "tmat": mat_desc(tg.as_matrix())}
                ctx.count("ctrl_nc=%d" % nc)
                net = oracle_gate(ctx, "ctrl", desc, gate, nc + nt)
                o, onet, exc = obs("ctrl", gate.as_tensornet)
                add("KCtrl %s %s %s %s" % (ct.z(nc), ct.z(nt), zlist(cs), o), dict(desc, op="structure"))
                if ctx.thorough:
                    want_val = nc <= 4 or (nt == 1 and rng.random() < 0.25)
                else:
                    want_val = nc <= 3 or (nc == 4 and (nt == 1 or rng.random() < 0.25)) \
                        or (nc >= 5 and nt == 1 and rng.random() < 0.03)
                if net is not None and want_val:
                    full = full_tensor(net)
                    if exact(full) and exact(tg.as_matrix()):
                        nbonds = net.num_bonds
                        with_sum = nbonds + 2 * (nc + nt) <= (18 if ctx.thorough else 15)
                        add("VCtrl %s %s %s %s %s %s" % (ct.nat(nc), ct.nat(nt), zlist(cs), ct.zimat(tg.as_matrix()),
                                                          ct.b(with_sum), sparse(full)), dict(desc, op="value"))
                        ctx.count("ctrl_value" + ("+defining_sum" if with_sum else ""))
    # guard: no controls
    for nt in (1, 2):
        g0 = qib.ControlledGate(qib.GeneralGate(np.identity(2 ** nt), nt), 0, [])
        o, _, exc = obs("ctrl", g0.as_tensornet)
        add("KCtrl %s %s %s %s" % (ct.z(0), ct.z(nt), zlist([]), o), {"kind": "ctrl", "ctrl_state": [], "ntargets": nt,
                                                                       "op": "structure(guard)"}, False)
        ctx.count("ctrl_nc=0(%s)" % ("raises " + type(exc).__name__ if exc else "returns"))

    # ------------------------------------------------------------------ nested controlled gates
    nests = []
    for a in range(1, 4):
        for b in range(1, 4):
            for _ in range(3 if ctx.thorough else 1):
                nests.append([(a, [rng.randint(0, 1) for _ in range(a)]), (b, [rng.randint(0, 1) for _ in range(b)])])
    for pa in itertools.product((0, 1), repeat=1):
        for pb in itertools.product((0, 1), repeat=2):
            nests.append([(1, list(pa)), (2, list(pb))])
            nests.append([(2, list(pb)), (1, list(pa))])
    for _ in range(12 if ctx.thorough else 4):
        nests.append([(k, [rng.randint(0, 1) for _ in range(k)]) for k in (rng.randint(1, 2), rng.randint(1, 2), rng.randint(1, 2))])
    for chain in nests:
        nt = rng.choice((1, 1, 2))
        name, tg = exact_targets(rng, nt)
        gate = build_nested(chain, tg)
        flat_cs = [c for _, cs in chain for c in cs]
        desc = {"kind": "nest", "chain": chain, "ntargets": nt, "target": name, "tmat": mat_desc(tg.as_matrix())}
        ctx.count("nested_depth=%d" % len(chain))
        net = oracle_gate(ctx, "nested", desc, gate, len(flat_cs) + nt)
        o, _, _ = obs("ctrl", gate.as_tensornet)
        add("KNest %s %s" % (nest_term(chain, nt), o), dict(desc, op="structure"))
        if net is not None and len(flat_cs) <= 4:
            full = full_tensor(net)
            if exact(full):
                add("VCtrl %s %s %s %s false %s" % (ct.nat(len(flat_cs)), ct.nat(nt), zlist(flat_cs),
                                                     ct.zimat(tg.as_matrix()), sparse(full)), dict(desc, op="value(flattened)"))

    # ------------------------------------------------------------------ multiplexers
    for nc in (1, 2, 3):
        for nt in (1, 2):
            for rep in range(3 if ctx.thorough else 1):
                tgs = [exact_targets(rng, nt) for _ in range(2 ** nc)]
                gate = qib.MultiplexedGate([g for _, g in tgs], nc)
                desc = {"kind": "mux", "ncontrols": nc, "ntargets": nt, "targets": [n for n, _ in tgs],
                        "tmats": [mat_desc(g.as_matrix()) for _, g in tgs]}
                ctx.count("mux_nc=%d" % nc)
                net = oracle_gate(ctx, "mux", desc, gate, nc + nt)
                o, _, _ = obs("mux", gate.as_tensornet)
                add("KMux %s %s %s" % (ct.z(nc), ct.z(nt), o), dict(desc, op="structure"))
                if net is not None:
                    full = full_tensor(net)
                    if exact(full):
                        add("VMux %s %s %s %s" % (ct.nat(nc), ct.nat(nt), ct.lst([ct.zimat(g.as_matrix()) for _, g in tgs]),
                                                  sparse(full)), dict(desc, op="value"))

    # ------------------------------------------------------------------ multiplexers with identity / repeated targets
    for spec in sparse_mux_specs(rng, ctx.thorough):
        gate, desc, mats = build_mux(spec)
        nc, nt = spec["ncontrols"], spec["ntargets"]
        ctx.count("mux_sparse_%s" % spec["family"])
        ctx.count("mux_sparse_nc=%d" % nc)
        net = mux_oracle(ctx, desc, gate, mats)
        if nc <= 3 and all(exact(m) for m in mats):
            o, _, _ = obs("mux", gate.as_tensornet)
            add("KMux %s %s %s" % (ct.z(nc), ct.z(nt), o), dict(desc, op="structure"))
            if net is not None:
                full = full_tensor(net)
                if exact(full):
                    add("VMux %s %s %s %s" % (ct.nat(nc), ct.nat(nt), ct.lst([ct.zimat(m) for m in mats]), sparse(full)),
                        dict(desc, op="value"))

    # ------------------------------------------------------------------ phase factor gates
    for n in (1, 2, 3, 4):
        for phi in ([0.0, 0.7, -2.1] + ([rng.uniform(-6, 6) for _ in range(3)] if ctx.thorough else [])):
            gate = qib.PhaseFactorGate(phi, n)
            desc = {"kind": "phase", "nwires": n, "phi": phi}
            ctx.count("phase_n=%d" % n)
            net = oracle_gate(ctx, "phase", desc, gate, n)
            o, _, _ = obs("phase", gate.as_tensornet)
            add("KPhase %s %s" % (ct.z(n), o), dict(desc, op="structure"))
            if net is not None:
                # exact value run: same network, the entry exp(i phi/n) replaced by a Gaussian integer w
                w = rng.choice([1 + 2j, 2 - 1j, 1j, -3])
                for k in list(net.data):
                    net.data[k] = w * np.identity(2)
                add("VPhase %s %s %s" % (ct.nat(n), ct.zi(w), sparse(full_tensor(net))), dict(desc, op="value", w=str(w)))

    # ------------------------------------------------------------------ prepare gates
    for n in (1, 2, 3):
        for tr in (False, True):
            for rep in range(3 if ctx.thorough else 2):
                vec = np.array([rng.uniform(-1, 1) for _ in range(2 ** n)])
                if rep == 0:
                    vec = np.array([(-1.0) ** k * (k + 1) for k in range(2 ** n)])
                gate = qib.PrepareGate(vec.copy(), n, transpose=tr)
                x = np.sign(gate.vec) * np.sqrt(np.abs(gate.vec))
                desc = {"kind": "prep", "nqubits": n, "transpose": tr, "vec": [float(v) for v in vec]}
                ctx.count("prep_n=%d" % n)
                net = oracle_gate(ctx, "prep", desc, gate, n, prepare=(x, tr))
                o, _, _ = obs("prep", gate.as_tensornet)
                add("KPrep %s %s %s" % (ct.z(n), ct.b(tr), o), dict(desc, op="structure"))
                if net is not None:
                    xi = np.array([rng.randint(-3, 3) + 1j * rng.randint(-2, 2) for _ in range(2 ** n)])
                    for k in list(net.data):
                        if k != "|0>_2":
                            net.data[k] = xi.reshape(n * (2,))
                    add("VPrep %s %s %s %s" % (ct.nat(n), ct.b(tr), ct.lst([ct.zi(v) for v in xi]), sparse(full_tensor(net))),
                        dict(desc, op="value", x=[str(v) for v in xi]))

    # directed preparation vectors (zeros at the front / back, basis states, negative entries), plain and derived
    for n in (1, 2, 3):
        for family, vec in prep_vectors(rng, n, ctx.thorough):
            for tr in (False, True):
                derives = ("plain", "inverse", "inverse-inverse") if (ctx.thorough or n <= 2) else ("plain", "inverse")
                for derive in derives:
                    ctx.count("prep_directed_%s" % family)
                    gate, net = prep_case(ctx, vec, n, tr, derive, family)
                    if derive == "plain" and gate is not None and family in ("basis-state", "leading-zeros", "trailing-zeros"):
                        desc = {"kind": "prep", "nqubits": n, "transpose": tr, "vec": [float(v) for v in vec],
                                "derive": derive, "family": family}
                        o, _, _ = obs("prep", gate.as_tensornet)
                        add("KPrep %s %s %s" % (ct.z(n), ct.b(tr), o), dict(desc, op="structure"))
                        if net is not None:
                            # exact value run with zeros where the vector has zeros
                            xi = np.array([0 if v == 0 else rng.randint(1, 3) * rng.choice([1, -1, 1j]) for v in vec], dtype=complex)
                            for k in list(net.data):
                                if k != "|0>_2":
                                    net.data[k] = xi.reshape(n * (2,))
                            add("VPrep %s %s %s %s" % (ct.nat(n), ct.b(tr), ct.lst([ct.zi(v) for v in xi]), sparse(full_tensor(net))),
                                dict(desc, op="value", x=[str(v) for v in xi]))

    # ------------------------------------------------------------------ elementary gates and wrap
    one, two = elementary_gates(rng)
    for name, mk in one:
        gate = mk()
        desc = {"kind": "elem", "gate": name}
        ctx.count("elementary_1q")
        oracle_gate(ctx, "wrap1q:" + name, desc, gate, 1)
        o, net, _ = obs("wrap", gate.as_tensornet)
        if net is not None:
            add("KWrap %s %s" % (ct.lst([ct.nat(d) for d in net.shape]), o), dict(desc, op="structure"), False)
    for name, mk in two:
        gate = mk()
        desc = {"kind": "elem", "gate": name}
        ctx.count("elementary_2q")
        oracle_gate(ctx, "wrap2q:" + name, desc, gate, 2)
        o, net, _ = obs("wrap", gate.as_tensornet)
        if net is not None:
            add("KWrap %s %s" % (ct.lst([ct.nat(d) for d in net.shape]), o), dict(desc, op="structure"), False)
    for n in (1, 2, 3):
        m = monomial(rng, n)
        gate = qib.GeneralGate(m, n)
        desc = {"kind": "general", "nwires": n, "mat": mat_desc(m)}
        ctx.count("general_n=%d" % n)
        net = oracle_gate(ctx, "general", desc, gate, n)
        o, _, _ = obs("wrap", gate.as_tensornet)
        add("KWrap %s %s" % (ct.lst([ct.nat(2)] * (2 * n)), o), dict(desc, op="structure"), False)
        if net is not None:
            add("VWrap %s %s %s" % (ct.lst([ct.nat(2)] * (2 * n)), ct.lst([ct.zi(v) for v in m.reshape(-1)]),
                                    sparse(full_tensor(net))), dict(desc, op="value"), False)
    # time evolution gate (reshape to the local dimensions) alone and controlled: float data, oracle only
    for nsites in (2, 3):
        latt = qib.lattice.IntegerLattice((nsites,), pbc=False)
        fld = qib.field.Field(qib.field.ParticleType.FERMION, latt)
        co = np.array([[rng.uniform(-1, 1) + 1j * rng.uniform(-1, 1) for _ in range(nsites)] for _ in range(nsites)])
        co = 0.5 * (co + co.conj().T)
        term = qib.operator.FieldOperatorTerm([qib.operator.IFODesc(fld, qib.operator.IFOType.FERMI_CREATE),
                                               qib.operator.IFODesc(fld, qib.operator.IFOType.FERMI_ANNIHIL)], co)
        tev = qib.TimeEvolutionGate(qib.FieldOperator([term]), 0.7)
        desc = {"kind": "tevo", "nsites": nsites, "coeffs": mat_desc(co), "t": 0.7}
        ctx.count("time_evolution")
        oracle_gate(ctx, "tevo", desc, tev, nsites)
        for cs in ([1], [0, 1]):
            oracle_gate(ctx, "ctrl-tevo", dict(desc, ctrl_state=cs), qib.ControlledGate(tev, len(cs), cs), len(cs) + nsites)
            ctx.count("controlled_time_evolution")

    # wrap of tensors of arbitrary shape (the classmethod itself)
    from qib.tensor_network import TensorNetwork
    for shp in [(3,), (2, 3), (3, 1, 2), (2, 2, 3, 2), ()]:
        a = np.array([rng.randint(-4, 4) + 1j * rng.randint(-4, 4) for _ in range(int(np.prod(shp)))]).reshape(shp)
        desc = {"kind": "wrap", "shape": list(shp), "entries": [str(v) for v in a.reshape(-1)]}
        ctx.count("wrap_generic")
        net = TensorNetwork.wrap(a, "a")
        if not net.is_consistent() or tuple(net.shape) != tuple(shp):
            ctx.fail("wrap:inconsistent-or-wrong-shape", desc, shp, net.shape)
        o, _, _ = obs("wrap", lambda: TensorNetwork.wrap(a, "a"))
        add("KWrap %s %s" % (ct.lst([ct.nat(d) for d in shp]), o), dict(desc, op="structure"), False)
        if len(shp) > 0:
            full = full_tensor(net)
            if not np.array_equal(full, a):
                ctx.fail("wrap:does-not-contract-to-the-tensor", desc, "a", "differs")
            add("VWrap %s %s %s" % (ct.lst([ct.nat(d) for d in shp]), ct.lst([ct.zi(v) for v in a.reshape(-1)]),
                                    sparse(full)), dict(desc, op="value"), False)

    ctx.log("implementation swept: %d cases" % len(cases))
    dis = ctx.cases("gatenet", HEADER, cases, shard=16)
    ctx.log("model evaluated")
    for i, d in dis[:5]:
        ctx.log("model/impl disagree on", d)
        # turn a disagreement into a concrete failing input where the oracle can see it
    return dis


def mat_desc(m):
    m = np.asarray(m, dtype=complex)
    return [[str(complex(v)) for v in row] for row in m]


def mat_of(d):
    return np.array([[complex(v) for v in row] for row in d])


# ----------------------------------------------------------------------------- replay
def replay(ctx, data):
    import qib
    inp, sig = data["input"], data["sig"]
    kind = inp.get("kind")
    label = sig.split(":")[0]
    if kind == "ctrl":
        nt = inp["ntargets"]
        tg = qib.GeneralGate(mat_of(inp["tmat"]), nt)
        gate = qib.ControlledGate(tg, len(inp["ctrl_state"]), inp["ctrl_state"])
        oracle_gate(ctx, "ctrl", inp, gate, len(inp["ctrl_state"]) + nt)
    elif kind == "nest":
        nt = inp["ntargets"]
        tg = qib.GeneralGate(mat_of(inp["tmat"]), nt)
        chain = [(int(a), list(b)) for a, b in inp["chain"]]
        gate = build_nested(chain, tg)
        oracle_gate(ctx, "nested", inp, gate, sum(a for a, _ in chain) + nt)
    elif kind == "mux":
        nt = inp["ntargets"]
        gate = qib.MultiplexedGate([qib.GeneralGate(mat_of(m), nt) for m in inp["tmats"]], inp["ncontrols"])
        oracle_gate(ctx, "mux", inp, gate, inp["ncontrols"] + nt)
    elif kind == "phase":
        oracle_gate(ctx, "phase", inp, qib.PhaseFactorGate(inp["phi"], inp["nwires"]), inp["nwires"])
    elif kind == "prep" and "derive" in inp:
        prep_case(ctx, np.array(inp["vec"], dtype=float), inp["nqubits"], inp["transpose"], inp["derive"], inp.get("family", ""))
    elif kind == "prep":
        gate = qib.PrepareGate(np.array(inp["vec"], dtype=float), inp["nqubits"], transpose=inp["transpose"])
        x = np.sign(gate.vec) * np.sqrt(np.abs(gate.vec))
        oracle_gate(ctx, "prep", inp, gate, inp["nqubits"], prepare=(x, inp["transpose"]))
    elif kind == "mux-sparse":
        gate, desc, mats = build_mux({k: v for k, v in inp.items() if k not in ("kind", "op")})
        mux_oracle(ctx, desc, gate, mats)
    elif kind == "elem":
        rng = ctx.rng
        one, two = elementary_gates(rng)
        for name, mk in one:
            if name == inp["gate"]:
                oracle_gate(ctx, "wrap1q:" + name, inp, mk(), 1)
        for name, mk in two:
            if name == inp["gate"]:
                oracle_gate(ctx, "wrap2q:" + name, inp, mk(), 2)
    elif kind == "tevo":
        n = inp["nsites"]
        latt = qib.lattice.IntegerLattice((n,), pbc=False)
        fld = qib.field.Field(qib.field.ParticleType.FERMION, latt)
        term = qib.operator.FieldOperatorTerm([qib.operator.IFODesc(fld, qib.operator.IFOType.FERMI_CREATE),
                                               qib.operator.IFODesc(fld, qib.operator.IFOType.FERMI_ANNIHIL)], mat_of(inp["coeffs"]))
        tev = qib.TimeEvolutionGate(qib.FieldOperator([term]), inp["t"])
        if "ctrl_state" in inp:
            cs = inp["ctrl_state"]
            oracle_gate(ctx, "ctrl-tevo", inp, qib.ControlledGate(tev, len(cs), cs), len(cs) + n)
        else:
            oracle_gate(ctx, "tevo", inp, tev, n)
    elif kind == "general":
        oracle_gate(ctx, "general", inp, qib.GeneralGate(mat_of(inp["mat"]), inp["nwires"]), inp["nwires"])
    elif kind == "layout":
        layout_case(ctx, mat_of(inp["mat"]), inp["nwires"], inp["layout"], inp["derive"])
    elif kind == "composite":
        composite_case(ctx, inp["spec"])
        ctx.failing[:] = [f for f in ctx.failing if f["sig"] == sig] or ctx.failing
    elif kind == "gate-history":
        run_history(ctx, inp["case"], int(inp["hseed"]))
        ctx.failing[:] = [f for f in ctx.failing if f["sig"] == sig]
        return
    elif kind == "wrap":
        from qib.tensor_network import TensorNetwork
        shp = tuple(inp["shape"])
        a = np.array([complex(v) for v in inp["entries"]]).reshape(shp)
        net = TensorNetwork.wrap(a, "a")
        if not net.is_consistent() or tuple(net.shape) != shp or (len(shp) and not np.array_equal(full_tensor(net), a)):
            ctx.fail(sig, inp, "a", "differs")
    # a replay reports under the recorded signature
    if ctx.failing:
        first = ctx.failing[0]
        ctx.failing[:] = [dict(first, sig=sig)]
