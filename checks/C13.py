"""C13 - compact encoding is exact on its stabiliser code space."""
import itertools, sys, os, time
from fractions import Fraction
import numpy as np
from vlib import coqterm as ct

sys.path.insert(0, os.path.join(os.path.dirname(os.path.dirname(os.path.abspath(__file__))), "gen"))

HEADER = "From Qib Require Import Compact.CompactCheck.\nFrom Coq Require Import QArith.\n"


# ------------------------------------------------------------------------------- Coq terms
def p3_of(ps):
    return ct.pair(ct.bits(ps.z), ct.bits(ps.x), ct.z(int(ps.q)))


def optz(v):
    return "None" if v is None else "(Some %s)" % ct.z(v)


def c3(face, x, y):
    return ct.pair(ct.b(face), ct.z(x), ct.z(y))


def hmat_term(h):
    return ct.lst([ct.lst([ct.qi(v) for v in row]) for row in h])


# ------------------------------------------------------------------------------- implementation wrappers
def fermi_operator(r, c, hs):
    import qib
    latt = qib.lattice.IntegerLattice((r, c), pbc=False)
    field = qib.field.Field(qib.field.ParticleType.FERMION, latt)
    terms = [qib.operator.FieldOperatorTerm(
        [qib.operator.IFODesc(field, qib.operator.IFOType.FERMI_CREATE),
         qib.operator.IFODesc(field, qib.operator.IFOType.FERMI_ANNIHIL)], np.array(h, dtype=float)) for h in hs]
    return qib.operator.FieldOperator(terms), latt


def grid_adjacent(c, i, j):
    """geometric nearest neighbours on the open r x c grid (row-major index)"""
    xi, yi, xj, yj = i // c, i % c, j // c, j % c
    return (xi == xj and abs(yi - yj) == 1) or (yi == yj and abs(xi - xj) == 1)


# ------------------------------------------------------------------------------- independent Pauli algebra
# a string is (k, letters) standing for i^k * letters[0] (x) letters[1] (x) ...
_M = {("X", "Y"): (1, "Z"), ("Y", "Z"): (1, "X"), ("Z", "X"): (1, "Y"),
      ("Y", "X"): (3, "Z"), ("Z", "Y"): (3, "X"), ("X", "Z"): (3, "Y")}


def lmul(a, b):
    if a == "I":
        return 0, b
    if b == "I":
        return 0, a
    if a == b:
        return 0, "I"
    return _M[(a, b)]


def s_of(ps):
    return ((-int(ps.q)) % 4, tuple(ps.get_pauli(i) for i in range(ps.num_qubits)))


def s_mul(a, b):
    k = a[0] + b[0]
    out = []
    for u, v in zip(a[1], b[1]):
        dk, w = lmul(u, v)
        k += dk
        out.append(w)
    return (k % 4, tuple(out))


def s_commute(a, b):
    return sum(1 for u, v in zip(a[1], b[1]) if u != "I" and v != "I" and u != v) % 2 == 0


def s_herm(a):
    return a[0] % 2 == 0


def s_ident(n):
    return (0, ("I",) * n)


def s_neg(a):
    return ((a[0] + 2) % 4, a[1])


# ------------------------------------------------------------------------------- oracles (on the implementation)
def faces_of(r, c):
    return [(x, y) for x in range(r - 1) for y in range(c - 1)]


def aux_faces(latt_enc, r, c):
    """faces whose centre is a site of the encoding lattice (read off index_to_coord)"""
    out = set()
    for i in range(r * c, latt_enc.nsites):
        cx, cy = latt_enc.index_to_coord(i)
        out.add((int(round(cx - 0.5)), int(round(cy - 0.5))))
    return out


def corner_cycle(x, y):
    return [(x, y), (x, y + 1), (x + 1, y + 1), (x + 1, y)]


def oracle_strings(ctx, r, c, fail):
    """relation set R, E_ji = -E_ij, loop products -- on the implementation's strings, with the
    independent algebra above. Returns the list of non-trivial loop strings."""
    import qib
    from qib.transform.compact_encoding import _encode_edge_operator, _encode_vertex_operator
    latt = qib.lattice.OddFaceCenteredLattice((r, c), pbc=False)
    n = latt.nsites
    inp = {"kind": "shape", "shape": [r, c]}
    verts = [(x, y) for x in range(r) for y in range(c)]
    V = {}
    for v in verts:
        try:
            V[v] = s_of(_encode_vertex_operator(latt, v))
        except Exception as e:
            fail("vertex:exception", dict(inp, vertex=list(v)), "V_j defined", repr(e))
            return None
        if not s_herm(V[v]):
            fail("vertex:not-hermitian", dict(inp, vertex=list(v)))
    E = {}
    for a in verts:
        for b in verts:
            if abs(a[0] - b[0]) + abs(a[1] - b[1]) == 1:
                try:
                    E[(a, b)] = s_of(_encode_edge_operator(latt, a, b))
                except Exception as e:
                    fail("edge:exception", dict(inp, edge=[list(a), list(b)]), "E_ij defined", repr(e))
                    return None
    for (a, b), e in E.items():
        d = dict(inp, edge=[list(a), list(b)])
        if not s_herm(e):
            fail("edge:not-hermitian", d)
        if E[(b, a)] != s_neg(e):
            fail("edge:E_ji-is-not-minus-E_ij", d, "E_ji = -E_ij", "E_ji = %r, E_ij = %r" % (E[(b, a)], e))
        if s_mul(e, e) != s_ident(n):
            fail("edge:not-involution", d)
        for v in verts:
            if s_commute(e, V[v]) != (v not in (a, b)):
                fail("relation:edge-vertex", dict(d, vertex=list(v)),
                     "anticommute iff the vertex is an endpoint", s_commute(e, V[v]))
        for (a2, b2), e2 in E.items():
            shared = len({a, b} & {a2, b2})
            want = shared != 1
            if s_commute(e, e2) != want:
                fail("relation:edge-edge", dict(d, edge2=[list(a2), list(b2)]),
                     "anticommute iff exactly one shared vertex", s_commute(e, e2))
    aux = aux_faces(latt, r, c)
    loops = {}
    for (x, y) in faces_of(r, c):
        cyc = corner_cycle(x, y)
        d = dict(inp, face=[x, y])
        variants = []
        for start in range(4):
            for direction in (1, -1):
                seq = [cyc[(start + direction * k) % 4] for k in range(5)]
                L = s_ident(n)
                for k in range(4):
                    L = s_mul(L, E[(seq[k], seq[k + 1])])
                variants.append(L)
        L = variants[0]
        if any(v != L for v in variants):
            fail("loop:depends-on-start-or-direction", d)
        if (x, y) in aux:
            if L != s_ident(n):
                fail("loop:not-identity-on-face-with-auxiliary-qubit", d, "identity", repr(L))
        else:
            if not s_herm(L):
                fail("loop:not-hermitian", d)
            if s_mul(L, L) != s_ident(n):
                fail("loop:not-involution", d)
            if all(l == "I" for l in L[1]):
                fail("loop:trivial-on-face-without-auxiliary-qubit", d, "a non-identity string", repr(L))
            loops[(x, y)] = L
    for (f1, L1), (f2, L2) in itertools.combinations(loops.items(), 2):
        if not s_commute(L1, L2):
            fail("loops:do-not-commute", dict(inp, faces=[list(f1), list(f2)]))
    return loops


def oracle_encoded_strings(ctx, r, c, hs, op, loops, fail):
    """the encoded operator string by string: Hermitian, commutes with every loop"""
    inp = {"kind": "enc", "shape": [r, c], "hs": [np.asarray(h).tolist() for h in hs]}
    for w in op.pstrings:
        s = s_of(w.paulis)
        val = complex(w.weight) * (1j ** s[0])
        if val.imag != 0:
            fail("encoded:not-hermitian", inp, "real coefficient on a Hermitian string", str(w))
        if complex(w.weight) != 0:
            for f, L in loops.items():
                if not s_commute(s, L):
                    fail("encoded:does-not-commute-with-loop", dict(inp, face=list(f)), "commute", str(w))


def oracle_dense(ctx, r, c, hs, fail, unit_exp=0):
    """dense reference from the property text: Hermitian matrix, commutes with every loop product,
    loop products identity/involution, spectrum on the joint +1 eigenspace = fermionic spectrum with
    uniform multiplicity.
    unit_exp: the spectra are compared in units of 2^unit_exp (both matrices are divided by that power of two,
    which is exact), so that "same spectrum" means the same thing for an operator given in small or large units:
    the tolerance is relative to the size of the operator, never an absolute 1e-9."""
    from scipy import sparse
    import qib
    from qib.transform.compact_encoding import _encode_edge_operator, compact_encode_field_operator
    inp = {"kind": "enc", "shape": [r, c], "hs": [np.asarray(h).tolist() for h in hs]}
    if unit_exp:
        inp["unit_exp"] = unit_exp
    unit = 2.0 ** unit_exp
    # the reference spectrum comes from a separately built operator, computed before the encoder runs
    H0, _ = fermi_operator(r, c, hs)
    ref = np.linalg.eigvalsh(H0.as_matrix().toarray() / unit)
    H, latt = fermi_operator(r, c, hs)
    Henc, le = compact_encode_field_operator(H)
    n = le.nsites
    D = 2 ** n
    I = sparse.identity(D, format="csr", dtype=complex)
    M = sparse.csr_matrix(Henc.as_matrix(), dtype=complex) / unit
    if M.shape != (D, D):
        fail("encoded:wrong-dimension", inp, D, M.shape)
        return
    if abs(M - M.conj().T).max() != 0:
        fail("encoded:matrix-not-hermitian", inp)
    aux = aux_faces(le, r, c)
    loops = []
    for (x, y) in faces_of(r, c):
        cyc = corner_cycle(x, y)
        L = I
        for k in range(4):
            L = L @ sparse.csr_matrix(_encode_edge_operator(le, cyc[k], cyc[(k + 1) % 4]).as_matrix(), dtype=complex)
        d = dict(inp, face=[x, y])
        if (x, y) in aux:
            if abs(L - I).max() != 0:
                fail("loop:matrix-not-identity-on-face-with-auxiliary-qubit", d)
        else:
            if abs(L - L.conj().T).max() != 0 or abs(L @ L - I).max() != 0:
                fail("loop:matrix-not-hermitian-involution", d)
            loops.append(L)
        if abs(L @ M - M @ L).max() != 0:
            fail("encoded:matrix-does-not-commute-with-loop", d)
    for A, B in itertools.combinations(loops, 2):
        if abs(A @ B - B @ A).max() != 0:
            fail("loops:matrices-do-not-commute", inp)
    P = I
    for L in loops:
        P = P @ (0.5 * (L + I))
    dimc = int(round(P.diagonal().sum().real))
    N = r * c
    if dimc == 0 or dimc % (2 ** N) != 0:
        fail("spectrum:code-space-dimension-not-a-multiple-of-fock-dimension", inp, "k * 2^%d" % N, dimc)
        return
    m = dimc // 2 ** N
    shift = float(sum(np.abs(np.asarray(h, dtype=float) / unit).sum() for h in hs)) + 1.0
    ev = np.linalg.eigvalsh((P @ (M + shift * I) @ P).toarray())
    ev = np.sort(ev[ev > 0.5] - shift)
    want = np.sort(np.repeat(ref, m))
    if len(ev) != dimc or not np.allclose(ev, want, rtol=0, atol=1e-9 * max(1.0, shift)):
        fail("spectrum:differs-on-code-space", inp, "fermionic spectrum, every level %d times" % m,
             "max deviation %s" % (np.abs(ev - want).max() if len(ev) == len(want) else "length %d vs %d" % (len(ev), len(want))))
    ctx.count("dense_mult=%d" % m)


SIG_INT = "encoder:refuses-integer-dtype-real-symmetric-coefficients"


def oracle_int_dtype(ctx, r, c, hint, fail, loops=None):
    """a real symmetric nearest-neighbour matrix given with an integer dtype (e.g. -adjacency_matrix())
    is an admissible coefficient matrix: it must be encoded, and the result must satisfy the property"""
    import qib
    from qib.transform.compact_encoding import compact_encode_field_operator
    inp = {"kind": "enc-int", "shape": [r, c], "hs": [hint]}
    latt = qib.lattice.IntegerLattice((r, c), pbc=False)
    field = qib.field.Field(qib.field.ParticleType.FERMION, latt)
    term = qib.operator.FieldOperatorTerm(
        [qib.operator.IFODesc(field, qib.operator.IFOType.FERMI_CREATE),
         qib.operator.IFODesc(field, qib.operator.IFOType.FERMI_ANNIHIL)], np.array(hint, dtype=int))
    try:
        op, le = compact_encode_field_operator(qib.operator.FieldOperator([term]))
    except ValueError as e:
        fail(SIG_INT, inp, "an encoded operator", repr(e))
        return
    # accepted (repaired code): it must agree with the float-dtype encoding
    H, _ = fermi_operator(r, c, [hint])
    op2, _ = compact_encode_field_operator(H)
    same = len(op.pstrings) == len(op2.pstrings) and all(
        a.paulis == b.paulis and complex(a.weight) == complex(b.weight) for a, b in zip(op.pstrings, op2.pstrings))
    if not same:
        fail("encoder:integer-dtype-result-differs-from-float-dtype", inp)


# ------------------------------------------------------------------------------- canonical forms of the result
def canon_sum(op):
    """the encoded operator as {letters: coefficient} with the phase of every string folded into its
    coefficient, equal strings summed, exact zeros dropped (= the matrix, since Pauli strings are a basis).
    Exact on dyadic data."""
    out = {}
    for w in op.pstrings:
        k, letters = s_of(w.paulis)
        out[letters] = out.get(letters, 0) + complex(w.weight) * (1j ** k)
    return {k: v for k, v in out.items() if v != 0}


def canon_add(a, b):
    out = dict(a)
    for k, v in b.items():
        out[k] = out.get(k, 0) + v
    return {k: v for k, v in out.items() if v != 0}


def raw_list(op):
    """the result exactly as returned: ordered list of (z, x, q mod 4, re, im)"""
    return [["".join(str(int(b)) for b in w.paulis.z), "".join(str(int(b)) for b in w.paulis.x),
             int(w.paulis.q) % 4, float(complex(w.weight).real), float(complex(w.weight).imag)] for w in op.pstrings]


def canon_diff(a, b):
    keys = [k for k in set(a) | set(b) if a.get(k, 0) != b.get(k, 0)]
    keys.sort()
    return "; ".join("%s: %s vs %s" % ("".join(k), a.get(k, 0), b.get(k, 0)) for k in keys[:3])


def oracle_closed_form(ctx, r, c, hs, op, fail):
    """the result, as a matrix, is  sum_terms [ sum_i h_ii 1/2 (1 - V_i) + sum_{i<j} h_ij (i/2) (E_ij V_j - E_ij V_i) ]
    with E, V the implementation's edge / vertex strings (which oracle_strings checks against the relation set
    R separately) and the products taken with the independent algebra above.  Exact, any shape."""
    import qib
    from qib.transform.compact_encoding import _encode_edge_operator, _encode_vertex_operator
    inp = {"kind": "enc", "shape": [r, c], "hs": [np.asarray(h).tolist() for h in hs]}
    latt = qib.lattice.OddFaceCenteredLattice((r, c), pbc=False)
    n = latt.nsites
    want = {}

    def acc(sv, coeff):
        k, letters = sv
        want[letters] = want.get(letters, 0) + coeff * (1j ** k)
    N = r * c
    if any(h[i][j] != 0 and not grid_adjacent(c, i, j) for h in hs for i in range(N) for j in range(i + 1, N)):
        return      # not an admissible operator (hopping beyond nearest neighbours): nothing is claimed
    try:
        V = [s_of(_encode_vertex_operator(latt, (i // c, i % c))) for i in range(N)]
        for h in hs:
            for i in range(N):
                if h[i][i] != 0:
                    acc(s_ident(n), 0.5 * h[i][i])
                    acc(V[i], -0.5 * h[i][i])
                for j in range(i + 1, N):
                    if h[i][j] != 0:
                        E = s_of(_encode_edge_operator(latt, (i // c, i % c), (j // c, j % c)))
                        acc(s_mul(E, V[j]), 0.5j * h[i][j])
                        acc(s_mul(E, V[i]), -0.5j * h[i][j])
    except Exception as e:
        fail("edge:exception", dict(inp, kind="enc"), "E_ij, V_j defined for every nearest-neighbour pair", repr(e))
        return
    want = {k: v for k, v in want.items() if v != 0}
    got = canon_sum(op)
    if got != want:
        fail("encoded:differs-from-the-closed-form-sum-over-vertex-and-edge-operators", inp,
             "sum_i h_ii/2 (1 - V_i) + sum_{i<j} h_ij (i/2)(E_ij V_j - E_ij V_i)", canon_diff(got, want))


def oracle_additive(ctx, r, c, hs, fail):
    """closed form (theorem C13_closed_form) is linear in h and a sum over the terms:
       encode([h1..hk]) = encode([h1]) + .. + encode([hk]) = encode([h1 + .. + hk])   as matrices,
    for every order of the terms.  Exact (dyadic data), any shape."""
    from qib.transform.compact_encoding import compact_encode_field_operator
    inp = {"kind": "enc-multi", "shape": [r, c], "hs": [np.asarray(h).tolist() for h in hs]}

    def enc(hlist):
        H, _ = fermi_operator(r, c, hlist)
        return canon_sum(compact_encode_field_operator(H)[0])
    try:
        whole = enc(hs)
        parts = {}
        for h in hs:
            parts = canon_add(parts, enc([h]))
        total = np.zeros((r * c, r * c))
        for h in hs:
            total = total + np.asarray(h, dtype=float)
        merged = enc([total.tolist()])
        rev = enc(list(reversed(hs)))
        rot = enc(list(hs[1:]) + list(hs[:1]))
    except Exception as e:
        fail("encoder:crash:" + type(e).__name__, inp, "operator", repr(e))
        return
    if whole != parts:
        fail("encoder:multi-term-result-is-not-the-sum-of-the-single-term-results", inp,
             "encode([h1..hk]) == sum_k encode([hk]) as matrices", canon_diff(whole, parts))
    if whole != merged:
        fail("encoder:multi-term-result-differs-from-encoding-of-the-summed-coefficients", inp,
             "encode([h1..hk]) == encode([h1+..+hk]) as matrices", canon_diff(whole, merged))
    if whole != rev or whole != rot:
        fail("encoder:result-depends-on-the-order-of-the-terms", inp, "same matrix for every term order",
             canon_diff(whole, rev) or canon_diff(whole, rot))


def oracle_strings_stable(ctx, r, c, fail):
    """E_ij, V_j (hence the relation set and the loop products) are the same before and after encoder calls on
    that shape, and the relation/loop oracle still passes afterwards"""
    import qib
    from qib.transform.compact_encoding import (_encode_edge_operator, _encode_vertex_operator,
                                                compact_encode_field_operator)
    inp = {"kind": "shape-stable", "shape": [r, c]}
    verts = [(x, y) for x in range(r) for y in range(c)]
    edges = [(a, b) for a in verts for b in verts if abs(a[0] - b[0]) + abs(a[1] - b[1]) == 1]

    def strings():
        latt = qib.lattice.OddFaceCenteredLattice((r, c), pbc=False)
        return ([s_of(_encode_vertex_operator(latt, v)) for v in verts],
                [s_of(_encode_edge_operator(latt, a, b)) for (a, b) in edges])
    try:
        before = strings()
        N = r * c
        h = [[(0.5 if i == j else (1.0 if grid_adjacent(c, i, j) else 0.0)) for j in range(N)] for i in range(N)]
        for hs in ([h], [h, h]):
            H, _ = fermi_operator(r, c, hs)
            compact_encode_field_operator(H)
        after = strings()
    except Exception as e:
        fail("encoder:crash:" + type(e).__name__, inp, "operator", repr(e))
        return
    if before != after:
        k = [i for i, (u, v) in enumerate(zip(before[1], after[1])) if u != v]
        fail("edge:operators-change-after-encoder-calls", dict(inp, edge=[list(x) for x in edges[k[0]]] if k else None),
             "the same E_ij and V_j before and after compact_encode_field_operator", "different strings")
    oracle_strings(ctx, r, c, lambda sig, i, e=None, o=None: fail(sig + ":after-encoder-calls", dict(i, kind="shape-stable"), e, o))


def snapshot_terms(H):
    return [(t.coeffs.dtype.str, t.coeffs.shape, t.coeffs.tobytes(), len(t.opdesc)) for t in H.terms]


_FRESH = r"""
import sys, json
import numpy as np
import qib
from qib.transform.compact_encoding import compact_encode_field_operator
r, c, hs = json.loads(sys.argv[1])
latt = qib.lattice.IntegerLattice((r, c), pbc=False)
field = qib.field.Field(qib.field.ParticleType.FERMION, latt)
terms = [qib.operator.FieldOperatorTerm(
    [qib.operator.IFODesc(field, qib.operator.IFOType.FERMI_CREATE),
     qib.operator.IFODesc(field, qib.operator.IFOType.FERMI_ANNIHIL)], np.array(h, dtype=float)) for h in hs]
op, le = compact_encode_field_operator(qib.operator.FieldOperator(terms))
print("RESULT" + json.dumps([le.nsites, [["".join(str(int(b)) for b in w.paulis.z), "".join(str(int(b)) for b in w.paulis.x),
      int(w.paulis.q) % 4, float(complex(w.weight).real), float(complex(w.weight).imag)] for w in op.pstrings]]))
"""


def fresh_results(ops):
    """encode every (r, c, hs) of `ops` in its own fresh interpreter (first call of that process)"""
    import subprocess, json
    from vlib.core import REPO
    env = dict(os.environ)
    env["PYTHONPATH"] = os.path.join(REPO, "src")
    procs = [subprocess.Popen([sys.executable, "-B", "-c", _FRESH, json.dumps(o)], env=env, stdout=subprocess.PIPE,
                              stderr=subprocess.PIPE, text=True) for o in ops]
    out = []
    for p in procs:
        so, se = p.communicate(timeout=300)
        line = [l for l in so.splitlines() if l.startswith("RESULT")]
        out.append(json.loads(line[0][6:]) if p.returncode == 0 and line else ("error", se[-400:]))
    return out


def oracle_history(ctx, ops, schedule, fail):
    """a call of the encoder gives the result a fresh interpreter gives for the same operator, whatever was
    encoded before in this process (same shape, other shapes), and whatever the caller did to earlier results;
    it leaves its operand unchanged.  Exact comparison of the returned list (strings, phases, weights, order)."""
    from qib.transform.compact_encoding import compact_encode_field_operator, _encode_edge_operator
    ref = fresh_results(ops)
    base = {"kind": "history", "ops": [[r, c, [np.asarray(h).tolist() for h in hs]] for (r, c, hs) in ops]}
    for k, o in enumerate(ref):
        if isinstance(o, tuple):
            fail("encoder:fails-in-a-fresh-interpreter", dict(base, schedule=[k]), "an encoded operator", o[1])
            return
    for pos, k in enumerate(schedule):
        r, c, hs = ops[k]
        # the whole schedule is recorded: every operator occurs several times in it, so the replay (a new
        # process) reproduces a dependence on earlier calls even when here the first call already differed
        inp = dict(base, schedule=list(schedule))
        try:
            H, _ = fermi_operator(r, c, hs)
            snap = snapshot_terms(H)
            op, le = compact_encode_field_operator(H)
            got = [le.nsites, raw_list(op)]
        except Exception as e:
            fail("encoder:crash:" + type(e).__name__, inp, "operator", repr(e))
            return
        if snapshot_terms(H) != snap:
            fail("encoder:modifies-its-operand", inp, "coefficient arrays unchanged")
        if got != ref[k]:
            fail("encoder:result-depends-on-what-was-encoded-before", inp,
                 "the result of the first call in a fresh interpreter", "a call for operator %d (shape %dx%d) differs" % (k, r, c))
            return
        # the caller owns the result: scribbling over it must not leak into later calls
        for w in op.pstrings:
            w.weight = w.weight * 3 + 1
            w.paulis.q = (int(w.paulis.q) + 1) % 4
            w.paulis.z[:] = 1 - w.paulis.z
        for t in H.terms:
            t.coeffs[...] = 7.0
        ctx.count("history_calls")


# ------------------------------------------------------------------------------- input generation
VALS = [1, -1, 2, -2, 0.5, -0.5, 1.5, 3, -3, 0.25, -0.75]


def rand_h(rng, r, c, kind):
    N = r * c
    h = [[0.0] * N for _ in range(N)]
    pz = rng.choice([0.0, 0.2, 0.5])
    for i in range(N):
        if kind != "hop-only" and rng.random() >= pz:
            h[i][i] = float(rng.choice(VALS))
        for j in range(i + 1, N):
            if grid_adjacent(c, i, j) and kind != "diag" and rng.random() >= pz:
                h[i][j] = h[j][i] = float(rng.choice(VALS))
    if kind == "zero":
        h = [[0.0] * N for _ in range(N)]
    if kind == "far" and N >= 3:
        far = [(i, j) for i in range(N) for j in range(i + 1, N) if not grid_adjacent(c, i, j)]
        if far:
            i, j = rng.choice(far)
            h[i][j] = h[j][i] = float(rng.choice(VALS))
    if kind == "asym" and N >= 2:
        nn = [(i, j) for i in range(N) for j in range(i + 1, N) if grid_adjacent(c, i, j)]
        i, j = rng.choice(nn)
        h[j][i] = h[i][j] + 1.0
    return h


MULTI_KINDS = ["onsite+hop", "hop+onsite", "repeat", "zero-first", "zero-last", "zero-mid", "split2", "split3",
               "split4", "cancel", "trace-first"]


def zeros(N):
    return [[0.0] * N for _ in range(N)]


def split_terms(rng, r, c, kind):
    """2-4 coefficient matrices (each real symmetric, diagonal + nearest-neighbour, dyadic entries)"""
    N = r * c
    h = rand_h(rng, r, c, "nn")
    D = [[h[i][j] if i == j else 0.0 for j in range(N)] for i in range(N)]
    T = [[h[i][j] if i != j else 0.0 for j in range(N)] for i in range(N)]
    if kind == "onsite+hop":
        return [D, T]
    if kind == "hop+onsite":
        return [T, D]
    if kind == "repeat":
        return [h, [row[:] for row in h]] + ([[row[:] for row in h]] if rng.random() < 0.3 else [])
    if kind == "zero-first":
        return [zeros(N), h]
    if kind == "zero-last":
        return [h, zeros(N)]
    if kind == "zero-mid":
        return [D, zeros(N), T]
    if kind == "cancel":
        return [h, [[-v for v in row] for row in h]]
    if kind == "trace-first":
        # a first term with non-zero trace and no hopping, then terms without diagonal
        D1 = zeros(N)
        for i in range(N):
            D1[i][i] = float(rng.choice([1, 2, -3, 0.5]))
        return [D1, T] + ([rand_h(rng, r, c, "hop-only")] if rng.random() < 0.5 else [])
    k = {"split2": 2, "split3": 3, "split4": 4}[kind]
    parts = [zeros(N) for _ in range(k)]
    for i in range(N):
        for j in range(i, N):
            v = h[i][j]
            if v == 0:
                continue
            mode = rng.random()
            if mode < 0.6:                     # the whole entry goes to one term
                shares = {rng.randrange(k): v}
            elif mode < 0.9:                   # split into two dyadic parts
                a, b = rng.sample(range(k), 2)
                u = float(rng.choice([0.25, 0.5, -1, 2]))
                shares = {a: u, b: v - u}
            else:                              # every term gets a share
                u = float(rng.choice([0.5, -0.25, 1]))
                shares = {t: u for t in range(1, k)}
                shares[0] = v - u * (k - 1)
            for t, u in shares.items():
                parts[t][i][j] = parts[t][j][i] = u
    rng.shuffle(parts)
    return parts


# ------------------------------------------------------------------------------- coefficient magnitudes
# every comparison of the encoder with a coefficient must be exact: an amplitude is absent iff it is 0.0, however
# small it is.  Scales 2^e over the whole binary64 range (dyadic data: every weight, every sum stays exact).
SCALE_EXPS = [-1060, -1000, -300, -100, -60, -40, -34, -30, -27, -26, -20, -10, 30, 100, 1000]


def scale_h(h, e):
    return [[float(np.ldexp(v, e)) if v else 0.0 for v in row] for row in h]


def scale_family(rng, thorough):
    """(r, c, hs, tag, e): e = common exponent for homogeneity / the dense unit, or None for mixed scales"""
    out = []
    small = [(1, 2), (2, 1), (2, 2), (2, 3), (3, 2), (1, 4), (3, 3)]
    for e in SCALE_EXPS:
        picks = small if thorough else rng.sample(small, 3)
        for (r, c) in picks + [rng.choice([(4, 4), (3, 5), (5, 5), (2, 7)])]:
            out.append((r, c, [scale_h(rand_h(rng, r, c, rng.choice(["nn", "nn", "hop-only"])), e)], "uniform", e))
        r, c = rng.choice(small[2:])
        out.append((r, c, [scale_h(h, e) for h in split_terms(rng, r, c, rng.choice(["onsite+hop", "split3", "trace-first", "repeat"]))],
                    "uniform-multi", e))
    for _ in range(40 if thorough else 14):
        r, c = rng.choice(small + [(4, 4), (3, 5)])
        N = r * c
        # an O(1) operator with weak links: single hopping amplitudes far below the rest
        h = rand_h(rng, r, c, "nn")
        nn = [(i, j) for i in range(N) for j in range(i + 1, N) if grid_adjacent(c, i, j)]
        for (i, j) in rng.sample(nn, max(1, len(nn) // 3)):
            h[i][j] = h[j][i] = float(np.ldexp(rng.choice(VALS), rng.choice([-1070, -500, -80, -40, -30, -28, -27])))
        out.append((r, c, [h], "weak-links", None))
        # every hopping amplitude at its own scale, diagonal at one common scale (the identity weight is a sum)
        h = rand_h(rng, r, c, "nn")
        ed = rng.choice([-200, -40, -27, 0, 20])
        for i in range(N):
            h[i][i] = float(np.ldexp(h[i][i], ed)) if h[i][i] else 0.0
        for (i, j) in nn:
            if h[i][j]:
                h[i][j] = h[j][i] = float(np.ldexp(h[i][j], rng.choice([-1000, -300, -60, -33, -27, -26, -8, 0, 12, 200])))
        out.append((r, c, [h], "mixed", None))
    return out


def oracle_homog(ctx, r, c, hs, e, fail):
    """encode(2^e h) = 2^e encode(h): the same strings in the same order, every weight scaled exactly
    (hs is the SCALED operator, e its exponent; the base operator 2^-e hs has entries of order one)"""
    from qib.transform.compact_encoding import compact_encode_field_operator
    inp = {"kind": "enc-homog", "shape": [r, c], "hs": [np.asarray(h).tolist() for h in hs], "e": e}
    try:
        got = raw_list(compact_encode_field_operator(fermi_operator(r, c, hs)[0])[0])
        base = raw_list(compact_encode_field_operator(fermi_operator(r, c, [scale_h(h, -e) for h in hs])[0])[0])
    except Exception as ex:
        fail("encoder:crash:" + type(ex).__name__, inp, "operator", repr(ex))
        return
    want = [[z, x, q, float(np.ldexp(re, e)), float(np.ldexp(im, e))] for z, x, q, re, im in base]
    if got != want:
        k = next((k for k, (a, b) in enumerate(zip(got, want)) if a != b), min(len(got), len(want)))
        fail("encoder:not-homogeneous-in-the-coefficients", inp, "encode(2^%d h) = 2^%d encode(h), string by string" % (e, e),
             "%d vs %d strings; first difference at position %d: %r vs %r"
             % (len(got), len(want), k, got[k] if k < len(got) else None, want[k] if k < len(want) else None))


def shapes(maxq=None):
    out = [(r, c) for r in range(1, 6) for c in range(1, 6) if r * c <= 20]
    return out


def nqubits(r, c):
    return r * c + ((r - 1) * (c - 1) + 1) // 2


# ------------------------------------------------------------------------------- run
def run(ctx):
    import qib
    from qib.transform.compact_encoding import (_encode_edge_operator, _encode_vertex_operator,
                                                compact_encode_field_operator)
    import compact as gen_compact
    ctx.trusted.append(
        "C13: regenerated from the source: nsites, index_to_coord, coord_to_index, edge_to_odd_face_index of "
        "OddFaceCenteredLattice, the edge-operator orientation tree, the vertex operator, the weight constants and "
        "string products of the term assembly (props/C13.v proves them equal to the hand model); hand-modelled and "
        "tied by correspondence: from_single_paulis/set_pauli (array update), the loops of "
        "compact_encode_field_operator, merge-on-insert, np.unravel_index/ravel_multi_index on 2 axes, the open-grid "
        "adjacency matrix (= unit step on one axis), np.allclose on exact data (= equality)")
    ctx.trusted.append(
        "C13 background NOT proved here: the Derby-Klassen representation theorem (edge/vertex operators with the "
        "relation set R represent the even fermionic algebra on the joint +1 eigenspace of the loop products, so the "
        "encoded operator restricted to it has the fermionic spectrum with uniform multiplicity). The spectrum clause "
        "of C13 is only tested numerically (dense, <= 12 qubits), not proved.")
    ctx.assumes.append("coefficient matrices have a float dtype (integer dtype arrays are refused by the code with ValueError), "
                       "are exactly symmetric, and are supported on the diagonal and on nearest-neighbour pairs")
    ctx.rules.append(
        "all shapes r x c with r,c<=5, r*c<=20 (incl. 1xN, Nx1, 1x1): every index / coordinate / edge / vertex query in a "
        "one-cell margin around the lattice, both edge directions, and encoder runs on dyadic symmetric h (zeros, "
        "diagonal only, hopping only, two terms, far hopping -> ValueError, asymmetric -> ValueError; multi-term operators "
        "with 2-4 terms: on-site and hopping as separate terms in both orders, random splits of every entry over the "
        "terms, repeated terms, zero terms first/middle/last, h and -h, a first term with non-zero trace). "
        "Oracles on every encoder result: string-level Hermiticity / loop commutation, exact closed-form sum over the "
        "implementation's V_i, E_ij, additivity over terms / term order (exact), operand snapshot; dense spectrum "
        "oracle (<= 10 qubits quick, <= 12 thorough) on single- and multi-term operators; larger shapes up to 7x7, 6x8, "
        "2x9 (thorough 9x9) with the string-level oracles only; history oracle: a schedule of repeated encoder calls on "
        "the same and on other shapes compared with the result of a fresh interpreter per operator, results and "
        "operands scribbled over between calls. "
        "non-trivial = encoder case with at least one non-zero hopping entry, or an edge/face query on a lattice with a face")
    ctx.lib(["Compact/CompactCheck", "Compact/CompactProofs", "Compact/CompactBounded", "Compact/CompactLoops"])
    ok_tr = ctx.translate("GenCompact", gen_compact.generate)
    if ok_tr:
        ctx.props()
    else:
        ctx.oblige("props:C13", "theorem", False, "not compiled: translator failed")

    rng = ctx.rng
    cases = []

    def fail(sig, inp, expected=None, observed=None):
        ctx.fail(sig, inp, expected, observed)

    def add(term, desc, nontrivial=False):
        cases.append((term, desc))
        if nontrivial:
            ctx.nontriv(desc)
        ctx.sample(desc)

    def attempt(f):
        try:
            return f()
        except Exception:
            return None

    # ---------------------------------------------------------------- index functions, E and V strings
    for (r, c) in shapes():
        latt = qib.lattice.OddFaceCenteredLattice((r, c), pbc=False)
        n = latt.nsites
        hasface = r >= 2 and c >= 2
        add("CNs %s %s %s" % (ct.z(r), ct.z(c), ct.z(n)), {"op": "nsites", "shape": [r, c]})
        for i in range(-1, n + 3):
            res = attempt(lambda: latt.index_to_coord(i))
            if res is None:
                t = "None"
            else:
                cx, cy = res
                if float(cx) == int(cx):
                    t = "(Some %s)" % c3(False, int(cx), int(cy))
                else:
                    t = "(Some %s)" % c3(True, int(round(cx - 0.5)), int(round(cy - 0.5)))
            add("CI2C %s %s %s %s" % (ct.z(r), ct.z(c), ct.z(i), t), {"op": "index_to_coord", "shape": [r, c], "i": i})
            if res is not None and 0 <= i < n:
                back = attempt(lambda: latt.coord_to_index(res))
                if back != i:
                    fail("lattice:coord_to_index(index_to_coord(i))!=i", {"kind": "index", "shape": [r, c], "i": i}, i, back)
        for x in range(-1, r + 1):
            for y in range(-1, c + 1):
                res = attempt(lambda: latt.coord_to_index((x, y)))
                add("CC2I %s %s %s %s" % (ct.z(r), ct.z(c), c3(False, x, y), optz(res)),
                    {"op": "coord_to_index", "shape": [r, c], "c": [x, y]})
                res = attempt(lambda: latt.coord_to_index((x + 0.5, y + 0.5)))
                add("CC2I %s %s %s %s" % (ct.z(r), ct.z(c), c3(True, x, y), optz(res)),
                    {"op": "coord_to_index", "shape": [r, c], "c": [x + 0.5, y + 0.5]}, hasface)
                res = attempt(lambda: _encode_vertex_operator(latt, (x, y)))
                add("CVert %s %s %s %s %s" % (ct.z(r), ct.z(c), ct.z(x), ct.z(y), ct.opt(p3_of(res)) if res is not None else "None"),
                    {"op": "vertex", "shape": [r, c], "j": [x, y]})
                ctx.count("vertex")
                for (dx, dy) in ((0, 1), (0, -1), (1, 0), (-1, 0), (1, 1), (0, 0), (0, 2)):
                    if (dx, dy) in ((1, 1), (0, 0), (0, 2)) and rng.random() > 0.15:
                        continue
                    jx, jy = x + dx, y + dy
                    res = attempt(lambda: latt.edge_to_odd_face_index((x, y), (jx, jy)))
                    add("CEF %s %s %s" % (ct.z(r), ct.z(c), " ".join(ct.z(v) for v in (x, y, jx, jy))) + " " + optz(res),
                        {"op": "edge_to_odd_face_index", "shape": [r, c], "i": [x, y], "j": [jx, jy]}, hasface)
                    res = attempt(lambda: _encode_edge_operator(latt, (x, y), (jx, jy)))
                    add("CEdge %s %s %s %s" % (ct.z(r), ct.z(c), " ".join(ct.z(v) for v in (x, y, jx, jy)),
                                               ct.opt(p3_of(res)) if res is not None else "None"),
                        {"op": "edge", "shape": [r, c], "i": [x, y], "j": [jx, jy]}, hasface)
                    ctx.count("edge_%s" % ("ok" if res is not None else "refused"))

    # ---------------------------------------------------------------- string-level oracle per shape
    loops_of = {}
    for (r, c) in shapes():
        loops_of[(r, c)] = oracle_strings(ctx, r, c, fail)
        ctx.count("shape_oracle")

    # ---------------------------------------------------------------- encoder runs
    kinds = ["nn", "nn", "diag", "hop-only", "zero", "far", "asym", "two-terms"]
    if ctx.thorough:
        kinds = kinds + ["nn"] * 6 + ["two-terms", "far", "hop-only"] + MULTI_KINDS * 2
    for (r, c) in shapes():
        # multi-term operators: every kind on the small shapes, a rotating selection of 4 on the others
        off = rng.randrange(len(MULTI_KINDS))
        multi = MULTI_KINDS if r * c <= 6 else [MULTI_KINDS[(off + 3 * t) % len(MULTI_KINDS)] for t in range(4)]
        for kind in kinds + list(multi):
            if kind == "two-terms":
                hs = [rand_h(rng, r, c, "nn"), rand_h(rng, r, c, "nn")]
            elif kind in MULTI_KINDS:
                hs = split_terms(rng, r, c, kind)
            else:
                hs = [rand_h(rng, r, c, kind)]
            desc = {"kind": "enc", "shape": [r, c], "hs": hs}
            ctx.count("enc_%s" % kind)
            try:
                H, _ = fermi_operator(r, c, hs)
                snap = snapshot_terms(H)
                op, le = compact_encode_field_operator(H)
                if snapshot_terms(H) != snap:
                    fail("encoder:modifies-its-operand", {"kind": "operand", "shape": [r, c], "hs": hs},
                         "coefficient arrays unchanged")
                res = ct.opt(ct.lst([ct.pair(p3_of(w.paulis), ct.qi(w.weight)) for w in op.pstrings]))
                ctx.count("enc_ok")
            except ValueError:
                op, res = None, "None"
                ctx.count("enc_refused")
            except Exception as e:
                op, res = None, "None"
                fail("encoder:crash:" + type(e).__name__, desc, "operator or ValueError", repr(e))
            nt = any(h[i][j] != 0 for h in hs for i in range(r * c) for j in range(r * c) if i != j)
            add("CEnc %s %s %s %s" % (ct.z(r), ct.z(c), ct.lst([hmat_term(h) for h in hs]), res),
                {"op": "encode", "shape": [r, c], "kind": kind, "hs": hs}, nt)
            valid = kind not in ("far", "asym") or (kind == "far" and r * c < 3) or (kind == "asym" and r * c < 2)
            if valid and op is None:
                fail("encoder:refuses-admissible-operator", desc, "an encoded operator", "exception")
            if op is not None and loops_of.get((r, c)) is not None:
                oracle_encoded_strings(ctx, r, c, hs, op, loops_of[(r, c)], fail)
            if op is not None:
                oracle_closed_form(ctx, r, c, hs, op, fail)
            if op is not None and len(hs) >= 2:
                oracle_additive(ctx, r, c, hs, fail)
                ctx.count("additive_oracle")

    # ---------------------------------------------------------------- larger shapes: oracles only (no model run)
    big = [(5, 5), (5, 6), (6, 5), (6, 6), (7, 7), (6, 8), (9, 2), (2, 9), (1, 9), (9, 1)]
    if ctx.thorough:
        big += [(8, 8), (7, 3), (3, 7), (10, 3), (3, 10), (7, 8), (8, 7), (9, 9)]
    t_big = time.time()
    for (r, c) in big:
        loops = oracle_strings(ctx, r, c, fail)
        ctx.count("shape_oracle_big")
        for kind in ["nn", "trace-first", "split3"]:
            hs = split_terms(rng, r, c, kind) if kind in MULTI_KINDS else [rand_h(rng, r, c, kind)]
            desc = {"kind": "enc", "shape": [r, c], "hs": hs}
            try:
                H, _ = fermi_operator(r, c, hs)
                op, le = compact_encode_field_operator(H)
            except Exception as e:
                fail("encoder:refuses-admissible-operator" if isinstance(e, ValueError) else "encoder:crash:" + type(e).__name__,
                     desc, "an encoded operator", repr(e))
                continue
            ctx.count("enc_big")
            ctx.nontriv(("big", r, c, kind))
            if loops is not None:
                oracle_encoded_strings(ctx, r, c, hs, op, loops, fail)
            oracle_closed_form(ctx, r, c, hs, op, fail)
            if len(hs) >= 2:
                oracle_additive(ctx, r, c, hs, fail)
    ctx.log("big shapes %.1fs" % (time.time() - t_big))

    # ---------------------------------------------------------------- coefficient magnitudes (binary64 range)
    ctx.rules.append(
        "coefficient magnitudes: the same generators scaled by 2^e, e in %s (uniformly small / large single- and multi-term "
        "operators), O(1) operators with single weak links down to 2^-1070, every hopping amplitude at its own scale; oracles: "
        "exact closed form, string-level Hermiticity / loop commutation, additivity, homogeneity encode(2^e h) = 2^e encode(h) "
        "string by string, correspondence with the model (exact rationals), dense spectrum on the code space measured in "
        "units of 2^e (relative, never an absolute tolerance)" % (SCALE_EXPS,))
    t_sc = time.time()
    ndense = {}
    for (r, c, hs, tag, e) in scale_family(rng, ctx.thorough):
        ctx.count("scale_%s" % tag)
        if e is not None:
            ctx.count("scale_e=%d" % e)
        desc = {"kind": "enc", "shape": [r, c], "hs": hs}
        try:
            H, _ = fermi_operator(r, c, hs)
            op, le = compact_encode_field_operator(H)
        except Exception as ex:
            fail("encoder:refuses-admissible-operator" if isinstance(ex, ValueError) else "encoder:crash:" + type(ex).__name__,
                 desc, "an encoded operator", repr(ex))
            continue
        ctx.nontriv(("scale", r, c, tag, e))
        loops = loops_of.get((r, c))
        if loops is not None:
            oracle_encoded_strings(ctx, r, c, hs, op, loops, fail)
        oracle_closed_form(ctx, r, c, hs, op, fail)
        if len(hs) >= 2:
            oracle_additive(ctx, r, c, hs, fail)
        if e is not None:
            oracle_homog(ctx, r, c, hs, e, fail)
        # the model on the same data (exact rationals; literals kept small)
        if r * c <= 6 and (e is None or abs(e) <= 100) and all(2.0 ** -110 <= abs(v) <= 2.0 ** 110 for h in hs for row in h for v in row if v):
            add("CEnc %s %s %s %s" % (ct.z(r), ct.z(c), ct.lst([hmat_term(h) for h in hs]),
                                      ct.opt(ct.lst([ct.pair(p3_of(w.paulis), ct.qi(w.weight)) for w in op.pstrings]))),
                {"op": "encode", "shape": [r, c], "kind": "scale-" + tag, "e": e, "hs": hs}, True)
        # dense spectrum in units of 2^e (uniform scales within the range where the dense arithmetic is unproblematic)
        if e is not None and -320 <= e <= 320 and nqubits(r, c) <= 8 and ndense.get(e, 0) < (3 if ctx.thorough else 1):
            ndense[e] = ndense.get(e, 0) + 1
            ctx.count("scale_dense")
            try:
                oracle_dense(ctx, r, c, hs, fail, unit_exp=e)
            except Exception as ex:
                fail("encoder:crash:" + type(ex).__name__, desc, "operator", repr(ex))
    ctx.log("coefficient scales %.1fs" % (time.time() - t_sc))

    # ---------------------------------------------------------------- integer-dtype coefficient matrices
    for (r, c) in [(1, 2), (2, 3), (3, 2)]:
        latt0 = qib.lattice.IntegerLattice((r, c), pbc=False)
        hint = (-latt0.adjacency_matrix() + 2 * np.identity(r * c, dtype=int)).astype(int)
        oracle_int_dtype(ctx, r, c, hint.tolist(), fail, loops_of.get((r, c)))
        ctx.count("enc_int_dtype")

    # ---------------------------------------------------------------- dense oracle (property text, numpy)
    qmax = 12 if ctx.thorough else 10
    t_dense = time.time()
    for (r, c) in [(r, c) for r in range(1, 13) for c in range(1, 13)]:
        nq = nqubits(r, c)
        if nq > qmax and not ((r, c) == (3, 3)):
            continue
        reps = (4 if nq <= 10 else 1) if ctx.thorough else (2 if nq <= 8 else 1)
        plan = ["nn" if k != 1 else "hop-only" for k in range(reps)]
        # multi-term operators (on-site and hopping handed over as separate terms, split, repeated, zero terms)
        if ctx.thorough:
            # 11-12 qubits (one eigvalsh of a 2048/4096-dim matrix each): multi-term only on shapes with a face
            plan += MULTI_KINDS if nq <= 10 else (["trace-first", "split3"] if min(r, c) >= 2 else [])
        else:
            plan += (["trace-first", "onsite+hop", "split3", "repeat"] if nq <= 8 else ["trace-first"])
        for k, kind in enumerate(plan):
            hs = split_terms(rng, r, c, kind) if kind in MULTI_KINDS else [rand_h(rng, r, c, kind)]
            if k == 3 and kind == "nn":
                hs.append(rand_h(rng, r, c, "nn"))
            ctx.count("dense_nq=%d" % nq)
            ctx.count("dense_terms=%d" % len(hs))
            try:
                oracle_dense(ctx, r, c, hs, fail)
            except Exception as e:
                fail("encoder:crash:" + type(e).__name__, {"kind": "enc", "shape": [r, c], "hs": hs},
                     "operator", repr(e))
            ctx.nontriv(("dense", r, c, k))
    ctx.log("dense oracle %.1fs" % (time.time() - t_dense))

    # ---------------------------------------------------------------- history: repeated calls vs a fresh interpreter
    t_hist = time.time()
    hshapes = [(2, 2), (2, 3), (3, 2), (3, 3), (1, 3), (4, 2)] + ([(3, 4), (4, 4), (2, 5), (5, 1)] if ctx.thorough else [])
    ops = []
    for (r, c) in hshapes:
        ops.append((r, c, [rand_h(rng, r, c, "nn")]))
    ops.append((2, 2, split_terms(rng, 2, 2, "trace-first")))
    ops.append((3, 3, split_terms(rng, 3, 3, "split3")))
    ops.append((2, 3, [rand_h(rng, 2, 3, "hop-only")]))
    order = list(range(len(ops)))
    schedule = order + order[::-1]
    for _ in range(3 if ctx.thorough else 1):
        extra = order[:]
        rng.shuffle(extra)
        schedule += extra
    schedule += [0, 0, 0]
    oracle_history(ctx, ops, schedule, fail)
    ctx.nontriv(("history", len(schedule)))
    # the edge / vertex strings do not change when the encoder runs in between
    for (r, c) in [(2, 2), (3, 3), (2, 5), (4, 4)]:
        oracle_strings_stable(ctx, r, c, fail)
    ctx.log("history oracle %.1fs" % (time.time() - t_hist))

    dis = ctx.cases("compact", HEADER, cases)
    for i, d in dis[:5]:
        ctx.log("model/impl disagree on", d)


# ------------------------------------------------------------------------------- replay
def replay(ctx, data):
    inp, sig = data["input"], data["sig"]
    hits = []

    def fail(s, i, expected=None, observed=None):
        hits.append(s)

    kind = inp.get("kind")
    if kind == "history":
        oracle_history(ctx, [tuple(o) for o in inp["ops"]], inp["schedule"], fail)
        if sig in hits:
            ctx.fail(sig, inp, data.get("expected"), "still fails")
        return
    r, c = inp["shape"]
    if kind == "index":
        import qib
        latt = qib.lattice.OddFaceCenteredLattice((r, c), pbc=False)
        try:
            if latt.coord_to_index(latt.index_to_coord(inp["i"])) != inp["i"]:
                hits.append(sig)
        except Exception:
            hits.append(sig)
    elif kind == "shape":
        oracle_strings(ctx, r, c, fail)
    elif kind == "enc-int":
        oracle_int_dtype(ctx, r, c, inp["hs"][0], fail)
    elif kind == "shape-stable":
        oracle_strings_stable(ctx, r, c, fail)
    elif kind == "enc-multi":
        oracle_additive(ctx, r, c, inp["hs"], fail)
    elif kind == "enc-homog":
        oracle_homog(ctx, r, c, inp["hs"], inp["e"], fail)
    elif kind == "operand":
        from qib.transform.compact_encoding import compact_encode_field_operator
        H, _ = fermi_operator(r, c, inp["hs"])
        snap = snapshot_terms(H)
        try:
            compact_encode_field_operator(H)
        except Exception:
            pass
        if snapshot_terms(H) != snap:
            hits.append(sig)
    elif kind == "enc":
        from qib.transform.compact_encoding import compact_encode_field_operator
        hs = inp["hs"]
        # the oracle that recorded the failure runs first: in a new process it then sees the encoder's first call
        dense_sig = sig.startswith(("spectrum:", "loop:matrix", "loops:matrices", "encoded:matrix", "encoded:wrong-dimension"))
        try:
            if dense_sig and nqubits(r, c) <= 12:
                oracle_dense(ctx, r, c, hs, fail, unit_exp=inp.get("unit_exp", 0))
            H, _ = fermi_operator(r, c, hs)
            op, le = compact_encode_field_operator(H)
            oracle_closed_form(ctx, r, c, hs, op, fail)
            loops = oracle_strings(ctx, r, c, fail)
            if loops is not None:
                oracle_encoded_strings(ctx, r, c, hs, op, loops, fail)
            if not dense_sig and nqubits(r, c) <= 12:
                oracle_dense(ctx, r, c, hs, fail, unit_exp=inp.get("unit_exp", 0))
        except Exception as e:
            hits.append("encoder:crash:" + type(e).__name__)
            hits.append("encoder:refuses-admissible-operator")
    if sig in hits:
        ctx.fail(sig, inp, data.get("expected"), "still fails")
