"""C13 - compact encoding is exact on its stabiliser code space."""
import itertools, sys, os, time
from fractions import Fraction
import numpy as np
from vlib import coqterm as ct

sys.path.insert(0, os.path.join(os.path.dirname(os.path.dirname(os.path.abspath(__file__))), "gen"))

HEADER = "From Qib Require Import Compact.CompactCheck.\nFrom Coq Require Import QArith.\n"


# ------------------------------------------------------------------------------- Coq terms
def p3_of(ps):
    return ct.pair(ct.bits(ps.z), ct.bits(ps.x), ct.z(int(ps.q)))


def optz(v):
    return "None" if v is None else "(Some %s)" % ct.z(v)


def c3(face, x, y):
    return ct.pair(ct.b(face), ct.z(x), ct.z(y))


def hmat_term(h):
    return ct.lst([ct.lst([ct.qi(v) for v in row]) for row in h])


# ------------------------------------------------------------------------------- implementation wrappers
def fermi_operator(r, c, hs):
    import qib
    latt = qib.lattice.IntegerLattice((r, c), pbc=False)
    field = qib.field.Field(qib.field.ParticleType.FERMION, latt)
    terms = [qib.operator.FieldOperatorTerm(
        [qib.operator.IFODesc(field, qib.operator.IFOType.FERMI_CREATE),
         qib.operator.IFODesc(field, qib.operator.IFOType.FERMI_ANNIHIL)], np.array(h, dtype=float)) for h in hs]
    return qib.operator.FieldOperator(terms), latt


def grid_adjacent(c, i, j):
    """geometric nearest neighbours on the open r x c grid (row-major index)"""
    xi, yi, xj, yj = i // c, i % c, j // c, j % c
    return (xi == xj and abs(yi - yj) == 1) or (yi == yj and abs(xi - xj) == 1)


# ------------------------------------------------------------------------------- independent Pauli algebra
# a string is (k, letters) standing for i^k * letters[0] (x) letters[1] (x) ...
_M = {("X", "Y"): (1, "Z"), ("Y", "Z"): (1, "X"), ("Z", "X"): (1, "Y"),
      ("Y", "X"): (3, "Z"), ("Z", "Y"): (3, "X"), ("X", "Z"): (3, "Y")}


def lmul(a, b):
    if a == "I":
        return 0, b
    if b == "I":
        return 0, a
    if a == b:
        return 0, "I"
    return _M[(a, b)]


def s_of(ps):
    return ((-int(ps.q)) % 4, tuple(ps.get_pauli(i) for i in range(ps.num_qubits)))


def s_mul(a, b):
    k = a[0] + b[0]
    out = []
    for u, v in zip(a[1], b[1]):
        dk, w = lmul(u, v)
        k += dk
        out.append(w)
    return (k % 4, tuple(out))


def s_commute(a, b):
    return sum(1 for u, v in zip(a[1], b[1]) if u != "I" and v != "I" and u != v) % 2 == 0


def s_herm(a):
    return a[0] % 2 == 0


def s_ident(n):
    return (0, ("I",) * n)


def s_neg(a):
    return ((a[0] + 2) % 4, a[1])


# ------------------------------------------------------------------------------- oracles (on the implementation)
def faces_of(r, c):
    return [(x, y) for x in range(r - 1) for y in range(c - 1)]


def aux_faces(latt_enc, r, c):
    """faces whose centre is a site of the encoding lattice (read off index_to_coord)"""
    out = set()
    for i in range(r * c, latt_enc.nsites):
        cx, cy = latt_enc.index_to_coord(i)
        out.add((int(round(cx - 0.5)), int(round(cy - 0.5))))
    return out


def corner_cycle(x, y):
    return [(x, y), (x, y + 1), (x + 1, y + 1), (x + 1, y)]


def oracle_strings(ctx, r, c, fail):
    """relation set R, E_ji = -E_ij, loop products -- on the implementation's strings, with the
    independent algebra above. Returns the list of non-trivial loop strings."""
    import qib
    from qib.transform.compact_encoding import _encode_edge_operator, _encode_vertex_operator
    latt = qib.lattice.OddFaceCenteredLattice((r, c), pbc=False)
    n = latt.nsites
    inp = {"kind": "shape", "shape": [r, c]}
    verts = [(x, y) for x in range(r) for y in range(c)]
    V = {}
    for v in verts:
        try:
            V[v] = s_of(_encode_vertex_operator(latt, v))
        except Exception as e:
            fail("vertex:exception", dict(inp, vertex=list(v)), "V_j defined", repr(e))
            return None
        if not s_herm(V[v]):
            fail("vertex:not-hermitian", dict(inp, vertex=list(v)))
    E = {}
    for a in verts:
        for b in verts:
            if abs(a[0] - b[0]) + abs(a[1] - b[1]) == 1:
                try:
                    E[(a, b)] = s_of(_encode_edge_operator(latt, a, b))
                except Exception as e:
                    fail("edge:exception", dict(inp, edge=[list(a), list(b)]), "E_ij defined", repr(e))
                    return None
    for (a, b), e in E.items():
        d = dict(inp, edge=[list(a), list(b)])
        if not s_herm(e):
            fail("edge:not-hermitian", d)
        if E[(b, a)] != s_neg(e):
            fail("edge:E_ji-is-not-minus-E_ij", d, "E_ji = -E_ij", "%r vs %r" % (E[(b, a)], e))
        if s_mul(e, e) != s_ident(n):
            fail("edge:not-involution", d)
        for v in verts:
            if s_commute(e, V[v]) != (v not in (a, b)):
                fail("relation:edge-vertex", dict(d, vertex=list(v)),
                     "anticommute iff the vertex is an endpoint", s_commute(e, V[v]))
        for (a2, b2), e2 in E.items():
            shared = len({a, b} & {a2, b2})
            want = shared != 1
            if s_commute(e, e2) != want:
                fail("relation:edge-edge", dict(d, edge2=[list(a2), list(b2)]),
                     "anticommute iff exactly one shared vertex", s_commute(e, e2))
    aux = aux_faces(latt, r, c)
    loops = {}
    for (x, y) in faces_of(r, c):
        cyc = corner_cycle(x, y)
        d = dict(inp, face=[x, y])
        variants = []
        for start in range(4):
            for direction in (1, -1):
                seq = [cyc[(start + direction * k) % 4] for k in range(5)]
                L = s_ident(n)
                for k in range(4):
                    L = s_mul(L, E[(seq[k], seq[k + 1])])
                variants.append(L)
        L = variants[0]
        if any(v != L for v in variants):
            fail("loop:depends-on-start-or-direction", d)
        if (x, y) in aux:
            if L != s_ident(n):
                fail("loop:not-identity-on-face-with-auxiliary-qubit", d, "identity", repr(L))
        else:
            if not s_herm(L):
                fail("loop:not-hermitian", d)
            if s_mul(L, L) != s_ident(n):
                fail("loop:not-involution", d)
            if all(l == "I" for l in L[1]):
                fail("loop:trivial-on-face-without-auxiliary-qubit", d, "a non-identity string", repr(L))
            loops[(x, y)] = L
    for (f1, L1), (f2, L2) in itertools.combinations(loops.items(), 2):
        if not s_commute(L1, L2):
            fail("loops:do-not-commute", dict(inp, faces=[list(f1), list(f2)]))
    return loops


def oracle_encoded_strings(ctx, r, c, hs, op, loops, fail):
    """the encoded operator string by string: Hermitian, commutes with every loop"""
    inp = {"kind": "enc", "shape": [r, c], "hs": [np.asarray(h).tolist() for h in hs]}
    for w in op.pstrings:
        s = s_of(w.paulis)
        val = complex(w.weight) * (1j ** s[0])
        if val.imag != 0:
            fail("encoded:not-hermitian", inp, "real coefficient on a Hermitian string", str(w))
        if complex(w.weight) != 0:
            for f, L in loops.items():
                if not s_commute(s, L):
                    fail("encoded:does-not-commute-with-loop", dict(inp, face=list(f)), "commute", str(w))


def oracle_dense(ctx, r, c, hs, fail):
    """dense reference from the property text: Hermitian matrix, commutes with every loop product,
    loop products identity/involution, spectrum on the joint +1 eigenspace = fermionic spectrum with
    uniform multiplicity"""
    from scipy import sparse
    import qib
    from qib.transform.compact_encoding import _encode_edge_operator, compact_encode_field_operator
    inp = {"kind": "enc", "shape": [r, c], "hs": [np.asarray(h).tolist() for h in hs]}
    H, latt = fermi_operator(r, c, hs)
    Henc, le = compact_encode_field_operator(H)
    n = le.nsites
    D = 2 ** n
    I = sparse.identity(D, format="csr", dtype=complex)
    M = sparse.csr_matrix(Henc.as_matrix(), dtype=complex)
    if M.shape != (D, D):
        fail("encoded:wrong-dimension", inp, D, M.shape)
        return
    if abs(M - M.conj().T).max() != 0:
        fail("encoded:matrix-not-hermitian", inp)
    aux = aux_faces(le, r, c)
    loops = []
    for (x, y) in faces_of(r, c):
        cyc = corner_cycle(x, y)
        L = I
        for k in range(4):
            L = L @ sparse.csr_matrix(_encode_edge_operator(le, cyc[k], cyc[(k + 1) % 4]).as_matrix(), dtype=complex)
        d = dict(inp, face=[x, y])
        if (x, y) in aux:
            if abs(L - I).max() != 0:
                fail("loop:matrix-not-identity-on-face-with-auxiliary-qubit", d)
        else:
            if abs(L - L.conj().T).max() != 0 or abs(L @ L - I).max() != 0:
                fail("loop:matrix-not-hermitian-involution", d)
            loops.append(L)
        if abs(L @ M - M @ L).max() != 0:
            fail("encoded:matrix-does-not-commute-with-loop", d)
    for A, B in itertools.combinations(loops, 2):
        if abs(A @ B - B @ A).max() != 0:
            fail("loops:matrices-do-not-commute", inp)
    P = I
    for L in loops:
        P = P @ (0.5 * (L + I))
    dimc = int(round(P.diagonal().sum().real))
    N = r * c
    ref = np.linalg.eigvalsh(H.as_matrix().toarray())
    if dimc == 0 or dimc % (2 ** N) != 0:
        fail("spectrum:code-space-dimension-not-a-multiple-of-fock-dimension", inp, "k * 2^%d" % N, dimc)
        return
    m = dimc // 2 ** N
    shift = float(sum(np.abs(np.asarray(h, dtype=float)).sum() for h in hs)) + 1.0
    ev = np.linalg.eigvalsh((P @ (M + shift * I) @ P).toarray())
    ev = np.sort(ev[ev > 0.5] - shift)
    want = np.sort(np.repeat(ref, m))
    if len(ev) != dimc or not np.allclose(ev, want, rtol=0, atol=1e-9 * max(1.0, shift)):
        fail("spectrum:differs-on-code-space", inp, "fermionic spectrum, every level %d times" % m,
             "max deviation %s" % (np.abs(ev - want).max() if len(ev) == len(want) else "length %d vs %d" % (len(ev), len(want))))
    ctx.count("dense_mult=%d" % m)


SIG_INT = "encoder:refuses-integer-dtype-real-symmetric-coefficients"


def oracle_int_dtype(ctx, r, c, hint, fail, loops=None):
    """a real symmetric nearest-neighbour matrix given with an integer dtype (e.g. -adjacency_matrix())
    is an admissible coefficient matrix: it must be encoded, and the result must satisfy the property"""
    import qib
    from qib.transform.compact_encoding import compact_encode_field_operator
    inp = {"kind": "enc-int", "shape": [r, c], "hs": [hint]}
    latt = qib.lattice.IntegerLattice((r, c), pbc=False)
    field = qib.field.Field(qib.field.ParticleType.FERMION, latt)
    term = qib.operator.FieldOperatorTerm(
        [qib.operator.IFODesc(field, qib.operator.IFOType.FERMI_CREATE),
         qib.operator.IFODesc(field, qib.operator.IFOType.FERMI_ANNIHIL)], np.array(hint, dtype=int))
    try:
        op, le = compact_encode_field_operator(qib.operator.FieldOperator([term]))
    except ValueError as e:
        fail(SIG_INT, inp, "an encoded operator", repr(e))
        return
    # accepted (repaired code): it must agree with the float-dtype encoding
    H, _ = fermi_operator(r, c, [hint])
    op2, _ = compact_encode_field_operator(H)
    same = len(op.pstrings) == len(op2.pstrings) and all(
        a.paulis == b.paulis and complex(a.weight) == complex(b.weight) for a, b in zip(op.pstrings, op2.pstrings))
    if not same:
        fail("encoder:integer-dtype-result-differs-from-float-dtype", inp)


# ------------------------------------------------------------------------------- input generation
VALS = [1, -1, 2, -2, 0.5, -0.5, 1.5, 3, -3, 0.25, -0.75]


def rand_h(rng, r, c, kind):
    N = r * c
    h = [[0.0] * N for _ in range(N)]
    pz = rng.choice([0.0, 0.2, 0.5])
    for i in range(N):
        if kind != "hop-only" and rng.random() >= pz:
            h[i][i] = float(rng.choice(VALS))
        for j in range(i + 1, N):
            if grid_adjacent(c, i, j) and kind != "diag" and rng.random() >= pz:
                h[i][j] = h[j][i] = float(rng.choice(VALS))
    if kind == "zero":
        h = [[0.0] * N for _ in range(N)]
    if kind == "far" and N >= 3:
        far = [(i, j) for i in range(N) for j in range(i + 1, N) if not grid_adjacent(c, i, j)]
        if far:
            i, j = rng.choice(far)
            h[i][j] = h[j][i] = float(rng.choice(VALS))
    if kind == "asym" and N >= 2:
        nn = [(i, j) for i in range(N) for j in range(i + 1, N) if grid_adjacent(c, i, j)]
        i, j = rng.choice(nn)
        h[j][i] = h[i][j] + 1.0
    return h


def shapes(maxq=None):
    out = [(r, c) for r in range(1, 6) for c in range(1, 6) if r * c <= 20]
    return out


def nqubits(r, c):
    return r * c + ((r - 1) * (c - 1) + 1) // 2


# ------------------------------------------------------------------------------- run
def run(ctx):
    import qib
    from qib.transform.compact_encoding import (_encode_edge_operator, _encode_vertex_operator,
                                                compact_encode_field_operator)
    import compact as gen_compact
    ctx.trusted.append(
        "C13: regenerated from the source: nsites, index_to_coord, coord_to_index, edge_to_odd_face_index of "
        "OddFaceCenteredLattice, the edge-operator orientation tree, the vertex operator, the weight constants and "
        "string products of the term assembly (props/C13.v proves them equal to the hand model); hand-modelled and "
        "tied by correspondence: from_single_paulis/set_pauli (array update), the loops of "
        "compact_encode_field_operator, merge-on-insert, np.unravel_index/ravel_multi_index on 2 axes, the open-grid "
        "adjacency matrix (= unit step on one axis), np.allclose on exact data (= equality)")
    ctx.trusted.append(
        "C13 background NOT proved here: the Derby-Klassen representation theorem (edge/vertex operators with the "
        "relation set R represent the even fermionic algebra on the joint +1 eigenspace of the loop products, so the "
        "encoded operator restricted to it has the fermionic spectrum with uniform multiplicity). The spectrum clause "
        "of C13 is only tested numerically (dense, <= 12 qubits), not proved.")
    ctx.assumes.append("coefficient matrices have a float dtype (integer dtype arrays are refused by the code with ValueError), "
                       "are exactly symmetric, and are supported on the diagonal and on nearest-neighbour pairs")
    ctx.rules.append(
        "all shapes r x c with r,c<=5, r*c<=20 (incl. 1xN, Nx1, 1x1): every index / coordinate / edge / vertex query in a "
        "one-cell margin around the lattice, both edge directions, and encoder runs on dyadic symmetric h (zeros, "
        "diagonal only, hopping only, two terms, far hopping -> ValueError, asymmetric -> ValueError). "
        "non-trivial = encoder case with at least one non-zero hopping entry, or an edge/face query on a lattice with a face")
    ctx.lib(["Compact/CompactCheck", "Compact/CompactProofs", "Compact/CompactBounded"])
    ok_tr = ctx.translate("GenCompact", gen_compact.generate)
    if ok_tr:
        ctx.props()
    else:
        ctx.oblige("props:C13", "theorem", False, "not compiled: translator failed")

    rng = ctx.rng
    cases = []

    def fail(sig, inp, expected=None, observed=None):
        ctx.fail(sig, inp, expected, observed)

    def add(term, desc, nontrivial=False):
        cases.append((term, desc))
        if nontrivial:
            ctx.nontriv(desc)
        ctx.sample(desc)

    def attempt(f):
        try:
            return f()
        except Exception:
            return None

    # ---------------------------------------------------------------- index functions, E and V strings
    for (r, c) in shapes():
        latt = qib.lattice.OddFaceCenteredLattice((r, c), pbc=False)
        n = latt.nsites
        hasface = r >= 2 and c >= 2
        add("CNs %s %s %s" % (ct.z(r), ct.z(c), ct.z(n)), {"op": "nsites", "shape": [r, c]})
        for i in range(-1, n + 3):
            res = attempt(lambda: latt.index_to_coord(i))
            if res is None:
                t = "None"
            else:
                cx, cy = res
                if float(cx) == int(cx):
                    t = "(Some %s)" % c3(False, int(cx), int(cy))
                else:
                    t = "(Some %s)" % c3(True, int(round(cx - 0.5)), int(round(cy - 0.5)))
            add("CI2C %s %s %s %s" % (ct.z(r), ct.z(c), ct.z(i), t), {"op": "index_to_coord", "shape": [r, c], "i": i})
            if res is not None and 0 <= i < n:
                back = attempt(lambda: latt.coord_to_index(res))
                if back != i:
                    fail("lattice:coord_to_index(index_to_coord(i))!=i", {"kind": "index", "shape": [r, c], "i": i}, i, back)
        for x in range(-1, r + 1):
            for y in range(-1, c + 1):
                res = attempt(lambda: latt.coord_to_index((x, y)))
                add("CC2I %s %s %s %s" % (ct.z(r), ct.z(c), c3(False, x, y), optz(res)),
                    {"op": "coord_to_index", "shape": [r, c], "c": [x, y]})
                res = attempt(lambda: latt.coord_to_index((x + 0.5, y + 0.5)))
                add("CC2I %s %s %s %s" % (ct.z(r), ct.z(c), c3(True, x, y), optz(res)),
                    {"op": "coord_to_index", "shape": [r, c], "c": [x + 0.5, y + 0.5]}, hasface)
                res = attempt(lambda: _encode_vertex_operator(latt, (x, y)))
                add("CVert %s %s %s %s %s" % (ct.z(r), ct.z(c), ct.z(x), ct.z(y), ct.opt(p3_of(res)) if res is not None else "None"),
                    {"op": "vertex", "shape": [r, c], "j": [x, y]})
                ctx.count("vertex")
                for (dx, dy) in ((0, 1), (0, -1), (1, 0), (-1, 0), (1, 1), (0, 0), (0, 2)):
                    if (dx, dy) in ((1, 1), (0, 0), (0, 2)) and rng.random() > 0.15:
                        continue
                    jx, jy = x + dx, y + dy
                    res = attempt(lambda: latt.edge_to_odd_face_index((x, y), (jx, jy)))
                    add("CEF %s %s %s" % (ct.z(r), ct.z(c), " ".join(ct.z(v) for v in (x, y, jx, jy))) + " " + optz(res),
                        {"op": "edge_to_odd_face_index", "shape": [r, c], "i": [x, y], "j": [jx, jy]}, hasface)
                    res = attempt(lambda: _encode_edge_operator(latt, (x, y), (jx, jy)))
                    add("CEdge %s %s %s %s" % (ct.z(r), ct.z(c), " ".join(ct.z(v) for v in (x, y, jx, jy)),
                                               ct.opt(p3_of(res)) if res is not None else "None"),
                        {"op": "edge", "shape": [r, c], "i": [x, y], "j": [jx, jy]}, hasface)
                    ctx.count("edge_%s" % ("ok" if res is not None else "refused"))

    # ---------------------------------------------------------------- string-level oracle per shape
    loops_of = {}
    for (r, c) in shapes():
        loops_of[(r, c)] = oracle_strings(ctx, r, c, fail)
        ctx.count("shape_oracle")

    # ---------------------------------------------------------------- encoder runs
    kinds = ["nn", "nn", "diag", "hop-only", "zero", "far", "asym", "two-terms"]
    if ctx.thorough:
        kinds = kinds + ["nn"] * 6 + ["two-terms", "far", "hop-only"]
    for (r, c) in shapes():
        for kind in kinds:
            if kind == "two-terms":
                hs = [rand_h(rng, r, c, "nn"), rand_h(rng, r, c, "nn")]
            else:
                hs = [rand_h(rng, r, c, kind)]
            desc = {"kind": "enc", "shape": [r, c], "hs": hs}
            ctx.count("enc_%s" % kind)
            try:
                H, _ = fermi_operator(r, c, hs)
                op, le = compact_encode_field_operator(H)
                res = ct.opt(ct.lst([ct.pair(p3_of(w.paulis), ct.qi(w.weight)) for w in op.pstrings]))
                ctx.count("enc_ok")
            except ValueError:
                op, res = None, "None"
                ctx.count("enc_refused")
            except Exception as e:
                op, res = None, "None"
                fail("encoder:crash:" + type(e).__name__, desc, "operator or ValueError", repr(e))
            nt = any(h[i][j] != 0 for h in hs for i in range(r * c) for j in range(r * c) if i != j)
            add("CEnc %s %s %s %s" % (ct.z(r), ct.z(c), ct.lst([hmat_term(h) for h in hs]), res),
                {"op": "encode", "shape": [r, c], "kind": kind, "hs": hs}, nt)
            valid = kind not in ("far", "asym") or (kind == "far" and r * c < 3) or (kind == "asym" and r * c < 2)
            if valid and op is None:
                fail("encoder:refuses-admissible-operator", desc, "an encoded operator", "exception")
            if op is not None and loops_of.get((r, c)) is not None:
                oracle_encoded_strings(ctx, r, c, hs, op, loops_of[(r, c)], fail)

    # ---------------------------------------------------------------- integer-dtype coefficient matrices
    for (r, c) in [(1, 2), (2, 3), (3, 2)]:
        latt0 = qib.lattice.IntegerLattice((r, c), pbc=False)
        hint = (-latt0.adjacency_matrix() + 2 * np.identity(r * c, dtype=int)).astype(int)
        oracle_int_dtype(ctx, r, c, hint.tolist(), fail, loops_of.get((r, c)))
        ctx.count("enc_int_dtype")

    # ---------------------------------------------------------------- dense oracle (property text, numpy)
    qmax = 12 if ctx.thorough else 10
    t_dense = time.time()
    for (r, c) in [(r, c) for r in range(1, 13) for c in range(1, 13)]:
        nq = nqubits(r, c)
        if nq > qmax and not ((r, c) == (3, 3)):
            continue
        reps = (4 if nq <= 10 else 1) if ctx.thorough else (2 if nq <= 8 else 1)
        for k in range(reps):
            hs = [rand_h(rng, r, c, "nn" if k != 1 else "hop-only")]
            if k == 3:
                hs.append(rand_h(rng, r, c, "nn"))
            ctx.count("dense_nq=%d" % nq)
            try:
                oracle_dense(ctx, r, c, hs, fail)
            except Exception as e:
                fail("encoder:crash:" + type(e).__name__, {"kind": "enc", "shape": [r, c], "hs": hs},
                     "operator", repr(e))
            ctx.nontriv(("dense", r, c, k))
    ctx.log("dense oracle %.1fs" % (time.time() - t_dense))

    dis = ctx.cases("compact", HEADER, cases)
    for i, d in dis[:5]:
        ctx.log("model/impl disagree on", d)


# ------------------------------------------------------------------------------- replay
def replay(ctx, data):
    inp, sig = data["input"], data["sig"]
    hits = []

    def fail(s, i, expected=None, observed=None):
        hits.append(s)

    r, c = inp["shape"]
    kind = inp.get("kind")
    if kind == "index":
        import qib
        latt = qib.lattice.OddFaceCenteredLattice((r, c), pbc=False)
        try:
            if latt.coord_to_index(latt.index_to_coord(inp["i"])) != inp["i"]:
                hits.append(sig)
        except Exception:
            hits.append(sig)
    elif kind == "shape":
        oracle_strings(ctx, r, c, fail)
    elif kind == "enc-int":
        oracle_int_dtype(ctx, r, c, inp["hs"][0], fail)
    elif kind == "enc":
        from qib.transform.compact_encoding import compact_encode_field_operator
        hs = inp["hs"]
        loops = oracle_strings(ctx, r, c, fail)
        try:
            H, _ = fermi_operator(r, c, hs)
            op, le = compact_encode_field_operator(H)
            if loops is not None:
                oracle_encoded_strings(ctx, r, c, hs, op, loops, fail)
            if nqubits(r, c) <= 12:
                oracle_dense(ctx, r, c, hs, fail)
        except Exception as e:
            hits.append("encoder:crash:" + type(e).__name__)
            hits.append("encoder:refuses-admissible-operator")
    if sig in hits:
        ctx.fail(sig, inp, data.get("expected"), "still fails")
