"""C19 - Qubitization circuits equal their defining phase-shift / alternating products."""
import os, sys, re, math
from fractions import Fraction
import numpy as np
from vlib import coqterm as ct

sys.path.insert(0, os.path.join(os.path.dirname(os.path.dirname(os.path.abspath(__file__))), "gen"))

HEADER = "From Coq Require Import PrimFloat.\nFrom Qib Require Import Qubitization.QubitCheck.\nFrom Run Require Import GenQubitization.\n"
TOL = 1e-9


# ------------------------------------------------------------------------------ building inputs
def mk_fields(n):
    import qib
    f_enc = qib.field.Field(qib.field.ParticleType.QUBIT, qib.lattice.IntegerLattice((n,), pbc=False))
    f_aux = qib.field.Field(qib.field.ParticleType.QUBIT, qib.lattice.IntegerLattice((1,), pbc=False))
    return f_enc, f_aux


ANGLE_TYPES = ["int", "bool", "np.int64", "np.int32", "np.int16", "np.int8", "np.uint8", "np.uint16", "np.float64", "np.float32", "np.float16",
               "np.longdouble", "Fraction", "Decimal", "0d-int", "0d-int32", "0d-float", "0d-float32", "np.bool_", "complex", "np.complex64"]
LOW_PRECISION = {"np.float32": 1e-5, "0d-float32": 1e-5, "np.complex64": 1e-5, "np.float16": 1e-5}


def typed_angle(v, tname):
    """the number v as an object of the named type; None when the type cannot hold it exactly.  (Single / half precision
    parameters give single-precision gate matrices - numpy evaluates cos / sin / exp in the precision of the argument -, so
    results for them are compared at 1e-5; every other type at the usual 1e-9.)"""
    import decimal
    if tname is None:
        return v
    mk = {"int": int, "bool": bool, "np.int64": np.int64, "np.int32": np.int32, "np.int16": np.int16, "np.int8": np.int8,
          "np.uint8": np.uint8, "np.uint16": np.uint16, "np.float64": np.float64, "np.float32": np.float32, "np.float16": np.float16,
          "np.longdouble": np.longdouble, "Fraction": Fraction, "Decimal": lambda x: decimal.Decimal(repr(float(x))),
          "0d-int": lambda x: np.array(int(x)), "0d-int32": lambda x: np.array(int(x), dtype=np.int32), "0d-float": lambda x: np.array(float(x)),
          "0d-float32": lambda x: np.array(x, dtype=np.float32), "np.bool_": np.bool_, "complex": complex, "np.complex64": np.complex64}[tname]
    try:
        if tname in ("int", "bool", "np.bool_", "0d-int", "0d-int32") or tname.startswith("np.int") or tname.startswith("np.uint"):
            if float(v) != int(v) or (tname in ("bool", "np.bool_") and v not in (0, 1)):
                return None
            if tname.startswith("np.") and tname != "np.bool_" and not (np.iinfo(mk).min <= int(v) <= np.iinfo(mk).max):
                return None
            t = mk(int(v))
        else:
            t = mk(v)
        back = complex(t) if "complex" in tname else float(t)
    except (OverflowError, ValueError, TypeError):
        return None
    return t if back == v else None


def mk_phase(n, method, theta, via="ctor"):
    """via: "ctor" - the angle is given to the constructor; "setter" - constructed with 0., then set_theta(theta);
    "setter-over-int" - constructed with the integer 1, then set_theta(0.), set_theta(theta)"""
    import qib
    f_enc, f_aux = mk_fields(n)
    q_enc = [qib.field.Qubit(f_enc, j) for j in range(n)]
    q_aux = qib.field.Qubit(f_aux, 0)
    first = theta if via == "ctor" else (0. if via == "setter" else 1)
    proc = qib.algorithms.qubitization.ProjectorControlledPhaseShift(first, n * [0], q_enc, q_aux, method)
    if via == "setter-over-int":
        proc.set_theta(0.)
    if via != "ctor":
        proc.set_theta(theta)
    fields = [f_aux, f_enc] if method == "auxiliary" else [f_enc]
    return proc, fields


def shift_ref(n, theta):
    """dense reference exp(i theta (2|0..0><0..0| - 1)) (independent of the library and of the model)"""
    d = np.full(2 ** n, np.exp(-1j * theta))
    d[0] = np.exp(1j * theta)
    return np.diag(d)


class DenseOp:
    """a Hermitian operator given by its matrix on a qubit field (duck-typed AbstractOperator)"""

    def __init__(self, field, mat):
        self.field, self.mat = field, np.asarray(mat, dtype=complex)

    def as_matrix(self):
        from scipy.sparse import csr_matrix
        return csr_matrix(self.mat)

    def fields(self):
        return [self.field]

    def is_hermitian(self):
        return True

    def is_unitary(self):
        return False


def lib_operator(opspec, f_sys):
    """an operator object of the library on the system field (instead of the dense duck-typed DenseOp):
    {"kind": "pauli", "terms": [[letters with optional phase prefix, [re, im]], ...]} | {"kind": "ising", J, h, g} |
    {"kind": "heis", J: [3], h: [3]}"""
    import qib
    from qib.operator import PauliOperator, PauliString, WeightedPauliString
    if opspec["kind"] == "pauli":
        ws = []
        for st, w in opspec["terms"]:
            c = complex(w[0], w[1])
            ws.append(WeightedPauliString(PauliString.from_string(st), c.real if c.imag == 0 else c))
        return PauliOperator(ws).set_field(f_sys)
    if opspec["kind"] == "ising":
        return qib.operator.IsingHamiltonian(f_sys, opspec["J"], opspec["h"], opspec["g"])
    if opspec["kind"] == "heis":
        return qib.operator.HeisenbergHamiltonian(f_sys, opspec["J"], opspec["h"])
    raise ValueError(opspec["kind"])


def as_sequence(thetas, seq_as):
    """the container / element type the angle sequence is handed over in"""
    if seq_as == "tuple":
        return tuple(thetas)
    if seq_as == "array":
        return np.array(thetas, dtype=float)
    if seq_as == "np-scalars":
        return [np.float64(t) for t in thetas]
    if seq_as == "int":
        return [int(t) for t in thetas]
    if seq_as == "int-array":
        return np.array([int(t) for t in thetas])
    if seq_as == "int32-array":
        return np.array([int(t) for t in thetas], dtype=np.int32)
    if seq_as == "int-tuple":
        return tuple(int(t) for t in thetas)
    if seq_as == "object-array":
        return np.array([int(t) if float(t) == int(t) else t for t in thetas], dtype=object)
    if seq_as == "float32-array":
        return np.array(thetas, dtype=np.float32)
    if seq_as is not None and seq_as.startswith("each:"):        # every element an object of one scalar type
        return [typed_angle(t, seq_as[5:]) for t in thetas]
    if seq_as == "mixed":                                        # Python ints where the value is integral, floats elsewhere
        return [int(t) if float(t) == int(t) else t for t in thetas]
    return list(thetas)


def seq_tol(seq_as):
    if seq_as == "float32-array" or (seq_as or "").startswith("each:") and seq_as[5:] in LOW_PRECISION:
        return 1e-5
    return 1e-8


def mk_evt(L, H, enc_method, proc_method, thetas, opspec=None, seq_as=None):
    import qib
    f_sys = qib.field.Field(qib.field.ParticleType.QUBIT, qib.lattice.IntegerLattice((L,), pbc=False))
    f2 = qib.field.Field(qib.field.ParticleType.QUBIT, qib.lattice.IntegerLattice((2,), pbc=False))
    q_anc, q_enc = qib.field.Qubit(f2, 0), qib.field.Qubit(f2, 1)
    op = DenseOp(f_sys, H) if opspec is None else lib_operator(opspec, f_sys)
    block = qib.operator.BlockEncodingGate(op, getattr(qib.operator.BlockEncodingMethod, enc_method))
    block.set_auxiliary_qubits(q_enc)
    proc = qib.algorithms.qubitization.ProjectorControlledPhaseShift(0., [0], q_enc, q_anc, proc_method)
    et = qib.algorithms.qubitization.EigenvalueTransformation(block, proc, theta_seq=as_sequence(thetas, seq_as))
    return et, block, proc, [f2, f_sys]


def rand_unitary(rng, d):
    a = np.array([[complex(rng.gauss(0, 1), rng.gauss(0, 1)) for _ in range(d)] for _ in range(d)])
    q, r = np.linalg.qr(a)
    return q * (np.diag(r) / np.abs(np.diag(r)))


def mk_evt_multi(nenc, L, V, proc_method, thetas, seq_as=None):
    """eigenvalue transformation around a user-defined block encoding with nenc >= 2 encoding qubits
    (a GeneralGate with the three attributes EigenvalueTransformation reads), so that the cascaded
    c-phase / the (nenc)-fold controlled X are exercised INSIDE the eigenvalue transformation"""
    import qib

    class MultiEnc(qib.operator.GeneralGate):
        def __init__(self, mat, enc, sysq):
            super().__init__(mat, len(enc) + len(sysq))
            self.auxiliary_qubits, self.sysq = list(enc), list(sysq)
            self.on(self.auxiliary_qubits + self.sysq)

        @property
        def num_aux_qubits(self):
            return len(self.auxiliary_qubits)

        def set_auxiliary_qubits(self, q):
            self.auxiliary_qubits = list(q) if isinstance(q, (list, tuple)) else [q]
            self.on(self.auxiliary_qubits + self.sysq)

        def inverse(self):
            return MultiEnc(self.mat.conj().T, self.auxiliary_qubits, self.sysq)

    f_sys = qib.field.Field(qib.field.ParticleType.QUBIT, qib.lattice.IntegerLattice((L,), pbc=False))
    f2 = qib.field.Field(qib.field.ParticleType.QUBIT, qib.lattice.IntegerLattice((1 + nenc,), pbc=False))
    q_anc = qib.field.Qubit(f2, 0)
    q_enc = [qib.field.Qubit(f2, 1 + j) for j in range(nenc)]
    q_sys = [qib.field.Qubit(f_sys, j) for j in range(L)]
    block = MultiEnc(V, q_enc, q_sys)
    proc = qib.algorithms.qubitization.ProjectorControlledPhaseShift(0., nenc * [0], q_enc, q_anc, proc_method)
    et = qib.algorithms.qubitization.EigenvalueTransformation(block, proc, theta_seq=as_sequence(thetas, seq_as))
    return et, block, proc, [f2, f_sys]


def rand_herm(rng, L):
    d = 2 ** L
    a = np.array([[complex(rng.gauss(0, 1), rng.gauss(0, 1)) for _ in range(d)] for _ in range(d)])
    h = (a + a.conj().T) / 2
    h = h / (np.linalg.norm(h, 2) * rng.uniform(1.15, 2.5))
    return h


def cplx_list(m):
    return [[[float(z.real), float(z.imag)] for z in row] for row in np.asarray(m)]


def from_cplx_list(l):
    return np.array([[complex(a, b) for a, b in row] for row in l])


# ------------------------------------------------------------------------------ canonical views of the implementation
def gate_term(g, fields, theta):
    """one gate of a phase-shift circuit as a Coq pgate term; None if the kind is unknown"""
    import qib
    from qib.util import map_particle_to_wire
    th = Fraction(theta)

    def wire(p):
        return map_particle_to_wire(fields, p)

    def coef(x):
        return ct.q(Fraction(float(x)) / th)
    if type(g) is qib.operator.RzGate:
        return "GRz %s %s" % (coef(g.theta), ct.nat(wire(g.qubit)))
    if type(g) is qib.operator.PhaseFactorGate:
        return "GPhase %s %s" % (coef(g.phi), ct.lst([ct.nat(wire(p)) for p in g.particles()]))
    if type(g) is qib.operator.ControlledGate:
        cs = ct.lst([ct.pair(ct.nat(wire(q)), ct.b(s)) for q, s in zip(g.control_qubits, g.ctrl_state)])
        t = g.tgate
        if type(t) is qib.operator.RzGate:
            return "GCRz %s %s %s" % (cs, coef(t.theta), ct.nat(wire(t.qubit)))
        if type(t) is qib.operator.PauliXGate:
            return "GMCX %s %s" % (cs, ct.nat(wire(t.qubit)))
    return None


def gate_key(g):
    """structural identity of a gate (for matching phase-shift groups inside the EVT circuit)"""
    import qib
    if type(g) is qib.operator.ControlledGate:
        return ("C", tuple(id(q.field) * 1000 + q.index for q in g.control_qubits), tuple(g.ctrl_state), gate_key(g.tgate))
    ps = tuple(id(p.field) * 1000 + p.index for p in g.particles())
    par = getattr(g, "theta", getattr(g, "phi", None))
    return (type(g).__name__, ps, None if par is None else float(par))


def evt_letters(et, block, proc, thetas):
    """gate list of as_circuit() as letters, first applied first: ('P', k) / ('U', inv)"""
    import qib
    circ = et.as_circuit()
    general = type(block) is not qib.operator.BlockEncodingGate
    base = None if general else block.method
    groups, cur = [], []
    for g in circ.gates:
        if type(g) is qib.operator.BlockEncodingGate or (general and isinstance(g, qib.operator.GeneralGate)):
            if cur:
                groups.append(("P", cur))
                cur = []
            if general:
                U = np.asarray(block.as_matrix())
                is_u, is_ui = np.allclose(g.as_matrix(), U), np.allclose(g.as_matrix(), U.conj().T)
                groups.append(("U", True if (is_ui and not is_u) else (False if is_u else None)))
            else:
                groups.append(("U", g.method != base))
        else:
            cur.append(g)
    if cur:
        groups.append(("P", cur))
    refs = []
    for th in thetas:
        proc.set_theta(th)
        refs.append([gate_key(g) for g in proc.as_circuit().gates])
    out = []
    for kind, v in groups:
        if kind == "U":
            out.append(("U", v if v is None else bool(v)))
        else:
            keys = [gate_key(g) for g in v]
            ks = [k for k, r in enumerate(refs) if r == keys]
            out.append(("P", ks[0] if len(ks) == 1 else -1))
    nblock = sum(1 for k, _ in out if k == "U")
    return out, circ, nblock


def letters_term(ls):
    return ct.lst(["LP %s" % ct.z(v) if k == "P" else "LU %s" % ct.b(v) for k, v in ls])


def alt_product(P, U, Ui, n):
    """the defining product P(th_0) U^{-+} ... P(th_{n-1}) U (last factor U)"""
    m = np.identity(U.shape[0], dtype=complex)
    for k in range(n):
        m = m @ P[k] @ (Ui if (n - 1 - k) % 2 == 1 else U)
    return m


# ------------------------------------------------------------------------------ oracles on the implementation
def oracle_phase(ctx, n, method, theta, theta_type=None, via="ctor"):
    """returns (M, fields, circuit) ; reports violations of the phase-shift clause.  theta is a float; theta_type names the type
    of the object handed to the library (typed_angle), via how it gets there (mk_phase)"""
    TOL = LOW_PRECISION.get(theta_type, globals()["TOL"])
    proc, fields = mk_phase(n, method, typed_angle(theta, theta_type), via)
    inp = {"kind": "phase", "n": n, "method": method, "theta": theta}
    if theta_type is not None or via != "ctor":
        inp.update(theta_type=theta_type, via=via)
    ref = shift_ref(n, theta)
    am = np.asarray(proc.as_matrix())
    if am.shape != ref.shape or not np.allclose(am, ref, atol=TOL):
        ctx.fail("phase-shift:as_matrix != exp(i theta (2|0><0|-1))", inp, "diag(e^{i th}, e^{-i th}, ...)", "differs")
    circ = proc.as_circuit()
    M = circ.as_matrix(fields).toarray()
    d = 2 ** n
    if method == "c-phase":
        if not np.allclose(M, ref, atol=TOL):
            ctx.fail("phase-shift:c-phase:circuit != exp(i theta (2|0><0|-1))" + (" (n>=2)" if n >= 2 else " (n=1)"),
                     inp, "diag(e^{i th}, e^{-i th}, ...)", "max dev %.3g" % np.abs(M - ref).max())
    else:
        if not np.allclose(M[:d, :d], ref, atol=TOL):
            ctx.fail("phase-shift:auxiliary:aux-|0> block != exp(i theta (2|0><0|-1))", inp, None,
                     "max dev %.3g" % np.abs(M[:d, :d] - ref).max())
        if not np.allclose(M[d:, :d], 0, atol=TOL):
            ctx.fail("phase-shift:auxiliary:auxiliary qubit not returned to |0>", inp, "lower-left block 0",
                     "max %.3g" % np.abs(M[d:, :d]).max())
    return proc, fields, circ, M


def oracle_evt(ctx, L, H, enc_method, proc_method, thetas, nenc=1, V=None, opspec=None, seq_as=None):
    """H: encoded Hamiltonian (library block encodings, one encoding qubit)  or
    V: a unitary on nenc + L qubits used as a user-defined block encoding with nenc encoding qubits;
    opspec: the Hamiltonian as an operator object of the library (then H is ignored); seq_as: container of the angles"""
    if V is None:
        et, block, proc, fields = mk_evt(L, H, enc_method, proc_method, thetas, opspec, seq_as)
        inp = {"kind": "evt", "L": L, "H": cplx_list(H) if opspec is None else None, "enc_method": enc_method, "proc_method": proc_method,
               "thetas": list(thetas)}
        if opspec is not None:
            inp["op"] = opspec
        if seq_as is not None:
            inp["seq_as"] = seq_as
    else:
        et, block, proc, fields = mk_evt_multi(nenc, L, V, proc_method, thetas, seq_as)
        inp = {"kind": "evt", "L": L, "V": cplx_list(V), "nenc": nenc, "enc_method": "general", "proc_method": proc_method,
               "thetas": list(thetas)}
        if seq_as is not None:
            inp["seq_as"] = seq_as
    tol = seq_tol(seq_as)
    n = len(thetas)
    cls = "len=1" if n == 1 else ("odd len>=3" if n % 2 else ("len=2" if n == 2 else "even len>=4"))
    M = np.asarray(et.as_matrix())
    U = np.asarray(block.as_matrix())
    Ui = np.linalg.inv(U)
    idL = np.identity(2 ** L)
    P = [np.kron(shift_ref(nenc, th), idL) for th in thetas]
    ref = alt_product(P, U, Ui, n)
    if M.shape != ref.shape or not np.allclose(M, ref, atol=tol):
        ctx.fail("evt:as_matrix != alternating product P(th0) U^-+ ... P(th_last) U (%s)" % cls, inp,
                 "product with one phase shift per angle", "max dev %.3g" % (np.abs(M - ref).max() if M.shape == ref.shape else -1))
    # depends on every angle
    for k in range(n):
        th2 = list(thetas)
        th2[k] = th2[k] + 0.4375
        et.set_theta_seq(as_sequence(th2, seq_as if seq_as in ("tuple", "array", "np-scalars") else None))
        M2 = np.asarray(et.as_matrix())
        if np.abs(M2 - M).max() < 1e-6:
            ctx.fail("evt:as_matrix does not depend on an angle (%s)" % cls, dict(inp, angle_index=k),
                     "matrix changes when angle %d changes" % k, "unchanged")
            break
    et.set_theta_seq(as_sequence(thetas, seq_as))
    letters, circ, nblock = evt_letters(et, block, proc, thetas)
    if nblock != n:
        ctx.fail("evt:as_circuit applies the encoding %s len(angles) times (%s)" % ("<" if nblock < n else ">", cls), inp, n, nblock)
    if any(k == "U" and v is None for k, v in letters):
        ctx.fail("evt:as_circuit contains a gate that is neither the encoding nor its inverse (%s)" % cls, inp)
    C = circ.as_matrix(fields).toarray()
    d = 2 ** (L + nenc)
    if not np.allclose(C[:d, :d], M, atol=tol):
        ctx.fail("evt:circuit aux-|0> block != as_matrix (%s)" % cls, inp, None, "max dev %.3g" % np.abs(C[:d, :d] - M).max())
    if not np.allclose(C[:d, :d], ref, atol=tol):
        ctx.fail("evt:circuit aux-|0> block != alternating product (%s)" % cls, inp, None, "max dev %.3g" % np.abs(C[:d, :d] - ref).max())
    if not np.allclose(C[d:2 * d, :d], 0, atol=tol):
        ctx.fail("evt:circuit leaks out of the aux-|0> block (%s)" % cls, inp)
    return et, block, proc, letters, M, U, Ui


# ------------------------------------------------------------------------------ histories (object lifetimes)
# One object, a sequence of setter / getter calls.  The harness keeps a SHADOW of the object's parameters (updated by
# its own reading of what each setter means) and every object a getter handed out together with the parameters at that
# moment.  After EVERY call, every object handed out so far is compared with an independent numpy reference for the
# parameters IT was obtained with (so a getter that returns a stale / cached / later-mutated object, a setter that does
# not reach everything it should, or a getter that disturbs earlier results all become concrete failing histories).
SETTER_NAME = {"theta": "set_theta", "enc": "set_encoding_qubits", "aux": "set_auxiliary_qubits", "anc": "set_auxiliary_qubits",
               "method": "set_method", "thetas": "set_theta_seq", "H": "replacing the encoded operator",
               "H_inplace": "changing the encoded operator in place", "block": "replacing the block encoding gate",
               "proc_theta": "processing.set_theta", "circuit": "as_circuit", "matrix": "as_matrix",
               "proc_circuit": "processing.as_circuit", None: "construction"}


def embed(nw, wires, A):
    """numpy-only: the operator A on the listed wires (in that order), identity on the others; wire 0 most significant"""
    wires = list(wires)
    rest = [w for w in range(nw) if w not in wires]
    T = np.kron(np.asarray(A, dtype=complex), np.identity(2 ** len(rest)))
    T = T.reshape(2 * nw * [2])
    order = wires + rest
    perm = [order.index(w) for w in range(nw)]
    return T.transpose(perm + [nw + p for p in perm]).reshape(2 ** nw, 2 ** nw)


def cols_with_zero(nw, wire):
    """basis states whose bit on `wire` is 0 (all of them if wire is None)"""
    if wire is None:
        return list(range(2 ** nw))
    return [c for c in range(2 ** nw) if not (c >> (nw - 1 - wire)) & 1]


def circuit_dev(circ, fields, nw, wires, ref, zero_wire):
    """max deviation of the circuit from `ref on wires (x) identity` on the inputs whose zero_wire is |0>"""
    M = circ.as_matrix(fields).toarray()
    if M.shape != (2 ** nw, 2 ** nw):
        return float("inf")
    E = embed(nw, wires, ref)
    cols = cols_with_zero(nw, zero_wire)
    return float(np.abs(M[:, cols] - E[:, cols]).max())


class Held:
    """an object a getter handed out + the parameters it was obtained with"""

    def __init__(self, what, obj, snap, step):
        self.what, self.obj, self.snap, self.step = what, obj, snap, step


def history_verdict(ctx, prefix, held, k, op, last_setter, dev_of, inp_of):
    """compare every held object with its reference; report the first deviation; True if one was found"""
    for h in held:
        try:
            dev = dev_of(h)
        except Exception as e:
            dev = "%s: %s" % (type(e).__name__, e)
        if isinstance(dev, str) or not dev < 1e-8:
            meth = h.snap["method"]
            if h.step == k:
                ctx.fail("%s:%s:%s returns an object that does not match the current parameters (last change: %s)"
                         % (prefix, meth, SETTER_NAME[op[0]], SETTER_NAME[last_setter]), inp_of(k),
                         "numpy reference for the parameters at the time of the call", "deviation %s" % dev)
            else:
                ctx.fail("%s:%s:%s obtained earlier no longer denotes what it denoted, after a later %s"
                         % (prefix, meth, h.what, SETTER_NAME[op[0]]), dict(inp_of(k), obtained_at_step=h.step),
                         "unchanged (numpy reference for the parameters it was obtained with)", "deviation %s" % dev)
            return True
    return False


def oracle_phase_history(ctx, W, init, ops, collect=None):
    """ProjectorControlledPhaseShift on a register of W qubits (one field).
    init = {theta, enc: [wires], aux: wire | None, method}; ops: ["theta", t] | ["enc", [wires]] | ["aux", w] |
    ["method", m] | ["circuit"] | ["matrix"].  Returns the number of objects checked."""
    import qib
    f = qib.field.Field(qib.field.ParticleType.QUBIT, qib.lattice.IntegerLattice((W,), pbc=False))
    q = [qib.field.Qubit(f, j) for j in range(W)]
    sh = {"theta": init["theta"], "enc": list(init["enc"]), "aux": init["aux"], "method": init["method"]}
    n = len(sh["enc"])
    proc = qib.algorithms.qubitization.ProjectorControlledPhaseShift(
        sh["theta"], n * [0], [q[w] for w in sh["enc"]], None if sh["aux"] is None else q[sh["aux"]], sh["method"])
    if sh["method"] != "auxiliary":
        sh["aux"] = None

    def inp_of(k):
        return {"kind": "phase-history", "W": W, "init": init, "ops": [list(o) for o in ops[:k + 1]]}

    def dev_of(h):
        s = h.snap
        ref = shift_ref(len(s["enc"]), s["theta"])
        if h.what == "matrix":
            A = np.asarray(h.obj)
            return float(np.abs(A - ref).max()) if A.shape == ref.shape else float("inf")
        return circuit_dev(h.obj, [f], W, s["enc"], ref, s["aux"] if s["method"] == "auxiliary" else None)

    held, last_setter, nchk = [], None, 0
    for k, op in enumerate(ops):
        if op[0] == "theta":
            proc.set_theta(op[1])
            sh["theta"] = op[1]
        elif op[0] == "enc":
            proc.set_encoding_qubits([q[w] for w in op[1]])
            sh["enc"] = list(op[1])
        elif op[0] == "aux":
            proc.set_auxiliary_qubits(q[op[1]])
            if sh["method"] == "auxiliary":
                sh["aux"] = op[1]
        elif op[0] == "method":
            proc.set_method(op[1])
            sh["method"] = op[1]
            if op[1] != "auxiliary":
                sh["aux"] = None
        elif op[0] == "circuit":
            held.append(Held("circuit", proc.as_circuit(), dict(sh, enc=list(sh["enc"])), k))
        elif op[0] == "matrix":
            held.append(Held("matrix", proc.as_matrix(), dict(sh, enc=list(sh["enc"])), k))
        else:
            raise ValueError(op)
        nchk += len(held)
        if history_verdict(ctx, "history:phase-shift", held, k, op, last_setter, dev_of, inp_of):
            return -1
        if op[0] not in ("circuit", "matrix"):
            last_setter = op[0]
    if collect is not None:
        collect.extend((h, [f]) for h in held)
    return nchk


def fresh_encoding(f_sys, H, enc_method):
    """matrix of a block encoding gate built from scratch for the operator H (no object of the history involved)"""
    import qib
    return np.asarray(qib.operator.BlockEncodingGate(DenseOp(f_sys, np.array(H, copy=True)),
                                                     getattr(qib.operator.BlockEncodingMethod, enc_method)).as_matrix())


def oracle_evt_history(ctx, W2, L, init, ops, collect=None):
    """EigenvalueTransformation on the fields [f2 (W2 qubits: auxiliary + candidate encoding qubits), f_sys (L qubits)].
    init = {H, enc_method, proc_method, thetas, enc: wire in f2, anc: wire in f2, bind: "before"|"after"};
    ops: ["thetas", [..]] | ["enc", w] | ["anc", w] | ["method", m] | ["H", mat] | ["H_inplace", mat] | ["block", enc_method] |
    ["proc_theta", t] | ["circuit"] | ["matrix"]."""
    import qib
    f_sys = qib.field.Field(qib.field.ParticleType.QUBIT, qib.lattice.IntegerLattice((L,), pbc=False))
    f2 = qib.field.Field(qib.field.ParticleType.QUBIT, qib.lattice.IntegerLattice((W2,), pbc=False))
    q = [qib.field.Qubit(f2, j) for j in range(W2)]
    nw = W2 + L
    sys_wires = list(range(W2, nw))
    H0 = from_cplx_list(init["H"])
    sh = {"thetas": list(init["thetas"]), "enc": init["enc"], "anc": init["anc"], "method": init["proc_method"],
          "H": H0, "enc_method": init["enc_method"]}
    block = qib.operator.BlockEncodingGate(DenseOp(f_sys, np.array(H0, copy=True)),
                                           getattr(qib.operator.BlockEncodingMethod, sh["enc_method"]))
    if init.get("bind", "before") == "before":
        block.set_auxiliary_qubits(q[sh["enc"]])
        proc = qib.algorithms.qubitization.ProjectorControlledPhaseShift(0., [0], q[sh["enc"]], q[sh["anc"]], sh["method"])
        et = qib.algorithms.qubitization.EigenvalueTransformation(block, proc, theta_seq=list(sh["thetas"]))
    else:
        # the object is built around a block encoding bound to ANOTHER qubit, then moved with the setters
        other = [w for w in range(W2) if w not in (sh["enc"], sh["anc"])][0]
        block.set_auxiliary_qubits(q[other])
        proc = qib.algorithms.qubitization.ProjectorControlledPhaseShift(0., [0], q[other], q[sh["anc"]], sh["method"])
        et = qib.algorithms.qubitization.EigenvalueTransformation(block, proc, theta_seq=None)
        et.set_theta_seq(list(sh["thetas"]))
        et.set_encoding_qubits(q[sh["enc"]])
    if sh["method"] != "auxiliary":
        sh["anc"] = None

    def inp_of(k):
        return {"kind": "evt-history", "W2": W2, "L": L, "init": init, "ops": [list(o) for o in ops[:k + 1]]}

    def snap():
        return {"thetas": list(sh["thetas"]), "enc": sh["enc"], "anc": sh["anc"], "method": sh["method"],
                "U": fresh_encoding(f_sys, sh["H"], sh["enc_method"])}

    def dev_of(h):
        s = h.snap
        if h.what == "proc_circuit":      # the user's processing.as_circuit(): compared exactly by the Coq model only
            return 0.0
        U = s["U"]
        P = [np.kron(shift_ref(1, th), np.identity(2 ** L)) for th in s["thetas"]]
        ref = alt_product(P, U, np.linalg.inv(U), len(s["thetas"]))
        if h.what == "matrix":
            A = np.asarray(h.obj)
            return float(np.abs(A - ref).max()) if A.shape == ref.shape else float("inf")
        return circuit_dev(h.obj, [f2, f_sys], nw, [s["enc"]] + sys_wires, ref, s["anc"] if s["method"] == "auxiliary" else None)

    held, last_setter, nchk = [], "enc" if init.get("bind") == "after" else None, 0
    for k, op in enumerate(ops):
        if op[0] == "thetas":
            et.set_theta_seq(list(op[1]))
            sh["thetas"] = list(op[1])
        elif op[0] == "enc":
            et.set_encoding_qubits(q[op[1]])
            sh["enc"] = op[1]
        elif op[0] == "anc":
            et.set_auxiliary_qubits(q[op[1]])
            if sh["method"] == "auxiliary":
                sh["anc"] = op[1]
        elif op[0] == "method":
            et.set_method(op[1])
            sh["method"] = op[1]
            if op[1] != "auxiliary":
                sh["anc"] = None
        elif op[0] == "H":
            sh["H"] = from_cplx_list(op[1])
            et.block_encoding.h = DenseOp(f_sys, np.array(sh["H"], copy=True))
        elif op[0] == "H_inplace":
            sh["H"] = from_cplx_list(op[1])
            et.block_encoding.h.mat[...] = sh["H"]
            # a gate holds its operator by reference: circuits handed out earlier follow the operator (matrices do not)
            for h in held:
                if h.what == "circuit" and h.snap["href"] is et.block_encoding.h:
                    h.snap["U"] = fresh_encoding(f_sys, sh["H"], h.snap["enc_method"])
        elif op[0] == "block":
            sh["enc_method"] = op[1]
            nb = qib.operator.BlockEncodingGate(DenseOp(f_sys, np.array(sh["H"], copy=True)),
                                                getattr(qib.operator.BlockEncodingMethod, op[1]))
            nb.set_auxiliary_qubits(q[sh["enc"]])
            et.block_encoding = nb
        elif op[0] == "proc_theta":
            et.processing.set_theta(op[1])
        elif op[0] in ("circuit", "matrix"):
            obj = et.as_circuit() if op[0] == "circuit" else et.as_matrix()
            s = snap()
            s["href"], s["enc_method"] = et.block_encoding.h, sh["enc_method"]
            held.append(Held(op[0], obj, s, k))
        elif op[0] == "proc_circuit":
            held.append(Held("proc_circuit", et.processing.as_circuit(), {"method": sh["method"], "href": None}, k))
        else:
            raise ValueError(op)
        nchk += len(held)
        if history_verdict(ctx, "history:evt", held, k, op, last_setter, dev_of, inp_of):
            return -1
        if op[0] not in ("circuit", "matrix", "proc_circuit"):
            last_setter = op[0]
    if collect is not None:
        collect.extend((h, [f2, f_sys]) for h in held)
    return nchk


# ---- the same histories as exact cases for the Coq state-machine model (Qubitization.HistCheck)
HIST_HEADER = ("From Coq Require Import PrimFloat.\nFrom Qib Require Import Qubitization.HistCheck.\nFrom Run Require Import GenQubitization GenQubitHist.\n")
HIST_FN = "bad_hist_cases gen_cphase gen_aux gen_evt_mat gen_evt_circ gen_pmat gen_pcps_setters gen_evt_setters"


def qlit(x):
    return ct.q(Fraction(float(x)))


def natl(ws):
    return ct.lst([ct.nat(w) for w in ws])


def pstate_term(theta, enc, aux, auxm):
    return "{| ps_theta := %s; ps_enc := %s; ps_aux := %s; ps_auxm := %s |}" % (qlit(theta), natl(enc), natl(aux), ct.b(auxm))


def abs_gate_terms(gates, fields):
    """gate terms with ABSOLUTE angles; None if a gate kind is not modelled"""
    ts = [gate_term(g, fields, 1) for g in gates]
    return None if any(t is None for t in ts) else ts


def phase_hist_case(init, ops, collected):
    """(Coq term, description) of a ProjectorControlledPhaseShift history; the observations are read NOW (at the end)"""
    auxm = init["method"] == "auxiliary"
    st0 = pstate_term(init["theta"], init["enc"], [init["aux"]] if auxm else [], auxm)
    calls, obs = [], []
    for op in ops:
        calls.append({"theta": lambda: "CSet (SetTheta %s)" % qlit(op[1]), "enc": lambda: "CSet (SetEnc %s)" % natl(op[1]),
                      "aux": lambda: "CSet (SetAux %s)" % natl([op[1]]), "method": lambda: "CSet (SetMethod %s)" % ct.b(op[1] == "auxiliary"),
                      "circuit": lambda: "CGet PGCircuit", "matrix": lambda: "CGet PGMatrix"}[op[0]]())
    for h, fields in collected:
        if h.what == "circuit":
            ts = abs_gate_terms(h.obj.gates, fields)
            if ts is None:
                return None
            obs.append("POCircuit %s" % ct.lst(ts))
        else:
            A = np.asarray(h.obj)
            dg = np.diag(A) if A.ndim == 2 and np.abs(A - np.diag(np.diag(A))).max() < 1e-12 else []
            obs.append("POMatrix %s %s %s" % (qlit(h.snap["theta"]), ct.fi(np.exp(1j * h.snap["theta"])), ct.lst([ct.fi(z) for z in dg])))
    return "HPhase %s %s %s" % (st0, ct.lst(calls), ct.lst(obs))


def evt_hist_case(init, ops, collected):
    import qib
    auxm = init["proc_method"] == "auxiliary"
    proc0 = pstate_term(0.0, [init["enc"]], [init["anc"]] if auxm else [], auxm)
    st0 = "{| es_seq := %s; es_proc := %s; es_benc := %s |}" % (ct.lst([qlit(t) for t in init["thetas"]]), proc0, natl([init["enc"]]))
    base = getattr(qib.operator.BlockEncodingMethod, init["enc_method"])
    calls, obs = [], []
    for op in ops:
        calls.append({"thetas": lambda: "CSet (ESetSeq %s)" % ct.lst([qlit(t) for t in op[1]]),
                      "enc": lambda: "CSet (ESetEnc %s)" % natl([op[1]]), "anc": lambda: "CSet (ESetAnc %s)" % natl([op[1]]),
                      "method": lambda: "CSet (ESetMethod %s)" % ct.b(op[1] == "auxiliary"),
                      "proc_theta": lambda: "CSet (EProcTheta %s)" % qlit(op[1]),
                      "circuit": lambda: "CGet EGCircuit", "matrix": lambda: "CGet EGMatrix",
                      "proc_circuit": lambda: "CGet EGProcCircuit"}[op[0]]())
    from qib.util import map_particle_to_wire
    for h, fields in collected:
        if h.what == "matrix":
            obs.append("EOMatrix")
        elif h.what == "proc_circuit":
            ts = abs_gate_terms(h.obj.gates, fields)
            if ts is None:
                return None
            obs.append("EOProc %s" % ct.lst(ts))
        else:
            ts = []
            for g in h.obj.gates:
                if type(g) is qib.operator.BlockEncodingGate:
                    ts.append("EU %s %s" % (ct.b(g.method != base), natl([map_particle_to_wire(fields, q) for q in g.auxiliary_qubits])))
                else:
                    t = gate_term(g, fields, 1)
                    if t is None:
                        return None
                    ts.append("EG (%s)" % t)
            obs.append("EOCircuit %s" % ct.lst(ts))
    return "HEvt %s %s %s %s" % (ct.b(init["enc_method"] == "R"), st0, ct.lst(calls), ct.lst(obs))


def gen_evt_model_history(rng, dyadic, distinct_angles):
    """history with the setters the Coq model has (exact dyadic angles), incl. the user's calls on the shared processing object"""
    W2 = 3
    wires = list(range(W2))
    rng.shuffle(wires)
    method = rng.choice(["auxiliary", "c-phase"])
    init = {"H": cplx_list(rand_herm(rng, 1)), "enc_method": rng.choice(["Wx", "Wxi", "R"]), "proc_method": method,
            "thetas": distinct_angles(rng.randint(1, 5)), "enc": wires[0], "anc": wires[1], "bind": "before"}
    cur = {"enc": wires[0], "anc": wires[1], "method": method}
    ops = [[rng.choice(["circuit", "matrix"])]]
    for _ in range(rng.randint(2, 5)):
        r = rng.random()
        if r < 0.3:
            ops.append(["thetas", distinct_angles(rng.randint(1, 6))])
        elif r < 0.5:
            free = [w for w in range(W2) if w not in (cur["enc"], cur["anc"] if cur["method"] == "auxiliary" else None)]
            cur["enc"] = rng.choice(free)
            ops.append(["enc", cur["enc"]])
        elif r < 0.6 and cur["method"] == "auxiliary":
            cur["anc"] = rng.choice([w for w in range(W2) if w not in (cur["enc"], cur["anc"])])
            ops.append(["anc", cur["anc"]])
        elif r < 0.75:
            cur["method"] = "c-phase" if cur["method"] == "auxiliary" else "auxiliary"
            ops.append(["method", cur["method"]])
            if cur["method"] == "auxiliary":
                cur["anc"] = rng.choice([w for w in range(W2) if w != cur["enc"]])
                ops.append(["anc", cur["anc"]])
        else:
            ops.append(["proc_theta", dyadic()])
        ops.append([rng.choice(["circuit", "circuit", "matrix", "proc_circuit"])])
    return W2, 1, init, ops


def gen_phase_history(rng, dyadic, thorough):
    W = rng.choice([3, 4, 5] if thorough else [3, 4])
    method = rng.choice(["auxiliary", "c-phase"])
    n = rng.randint(1, W - 1)
    wires = list(range(W))
    rng.shuffle(wires)
    enc, aux = wires[:n], (wires[n] if method == "auxiliary" else None)
    init = {"theta": dyadic(), "enc": enc, "aux": aux, "method": method}
    ops = [[rng.choice(["circuit", "circuit", "matrix"])]]
    cur = dict(init)
    for _ in range(rng.randint(3, 7)):
        r = rng.random()
        if r < 0.45:
            ops.append(["theta", dyadic()])
        elif r < 0.65:
            ws = list(range(W))
            rng.shuffle(ws)
            cur["enc"] = ws[:n]
            ops.append(["enc", ws[:n]])
            if cur["method"] == "auxiliary":
                cur["aux"] = ws[n]
                ops.append(["aux", ws[n]])
        elif r < 0.8 and cur["method"] == "auxiliary":
            free = [w for w in range(W) if w not in cur["enc"]]
            cur["aux"] = rng.choice(free)
            ops.append(["aux", cur["aux"]])
        else:
            cur["method"] = "c-phase" if cur["method"] == "auxiliary" else "auxiliary"
            ops.append(["method", cur["method"]])
            if cur["method"] == "auxiliary":
                cur["aux"] = rng.choice([w for w in range(W) if w not in cur["enc"]])
                ops.append(["aux", cur["aux"]])
        ops.append([rng.choice(["circuit", "circuit", "matrix"])])
    return W, init, ops


def gen_evt_history(rng, distinct_angles, thorough):
    L = rng.choice([1, 2]) if thorough else 1
    W2 = 3
    wires = list(range(W2))
    rng.shuffle(wires)
    method = rng.choice(["auxiliary", "c-phase"])
    init = {"H": cplx_list(rand_herm(rng, L)), "enc_method": rng.choice(["Wx", "Wxi", "R"]), "proc_method": method,
            "thetas": distinct_angles(rng.randint(2, 5)), "enc": wires[0], "anc": wires[1],
            "bind": rng.choice(["before", "before", "after"])}
    cur = {"enc": wires[0], "anc": wires[1], "method": method}
    ops = [[rng.choice(["circuit", "matrix"])]]
    for _ in range(rng.randint(2, 5)):
        r = rng.random()
        if r < 0.25:
            ops.append(["thetas", distinct_angles(rng.randint(1, 6))])
        elif r < 0.5:
            free = [w for w in range(W2) if w not in (cur["enc"], cur["anc"] if cur["method"] == "auxiliary" else None)]
            cur["enc"] = rng.choice(free)
            ops.append(["enc", cur["enc"]])
        elif r < 0.6 and cur["method"] == "auxiliary":
            cur["anc"] = rng.choice([w for w in range(W2) if w not in (cur["enc"], cur["anc"])])
            ops.append(["anc", cur["anc"]])
        elif r < 0.7:
            cur["method"] = "c-phase" if cur["method"] == "auxiliary" else "auxiliary"
            ops.append(["method", cur["method"]])
            if cur["method"] == "auxiliary":
                cur["anc"] = rng.choice([w for w in range(W2) if w != cur["enc"]])
                ops.append(["anc", cur["anc"]])
        elif r < 0.8:
            ops.append(["H", cplx_list(rand_herm(rng, L))])
        elif r < 0.88:
            ops.append(["H_inplace", cplx_list(rand_herm(rng, L))])
        elif r < 0.95:
            ops.append(["block", rng.choice(["Wx", "Wxi", "R"])])
        else:
            ops.append(["proc_theta", rng.uniform(-3, 3)])
        ops.append(["circuit"])
        if rng.random() < 0.6:
            ops.append(["matrix"])
    return W2, L, init, ops


def structured_sequences(rng, dyadic, thorough):
    """angle sequences with EQUAL values at chosen positions (the class 'the same value where the code treats positions
    differently'): two equal entries at every pair of positions (every parity pattern) for lengths 2..5 (thorough 7), the other
    entries distinct; constant sequences; palindromes of even and odd length; sequences containing 0, -0.0 and multiples of
    pi/2, pi, 2 pi, 4 pi (Rz has period 4 pi, the phase shift 2 pi); values equal modulo 2 pi but not equal; a and -a.
    Returns [(label, thetas)]."""
    def fresh(k, avoid=()):
        out = []
        while len(out) < k:
            t = dyadic()
            if all(abs(t - u) > 1e-9 for u in list(out) + list(avoid)):
                out.append(t)
        return out
    seqs = []
    a, b, c = fresh(3)
    for n in range(2, (7 if thorough else 5) + 1):
        for i in range(n):
            for j in range(i + 1, n):
                th = fresh(n, [a])
                th[i] = th[j] = a
                seqs.append(("equal@%d,%d/len%d" % (i, j, n), th))
    for n in (2, 3, 4, 5, 6, 7, 9, 12):
        seqs.append(("constant/len%d" % n, [a] * n))
    seqs += [("palindrome", [a, b, b, a]), ("palindrome", [a, b, a]), ("palindrome", [a, b, c, b, a]), ("palindrome", [a, b, c, c, b, a]),
             ("palindrome", [a, a, b, a, a]), ("two-values", [a, b, a, b]), ("two-values", [a, b, b, a, a, b]), ("two-values", [a, a, b, b]),
             ("two-values", [a, b, b]), ("two-values", [a, a, b]), ("two-values", [b, a, a, a])]
    pi = math.pi
    seqs += [("zeros", [0.0, 0.0]), ("zeros", [0.0, 0.0, 0.0]), ("zeros", [0.0, a, 0.0]), ("zeros", [a, 0.0, 0.0, a]), ("zeros", [-0.0, 0.0]),
             ("zeros", [0.0]), ("zeros", [0.0, a]), ("zeros", [a, 0.0])]
    for m, name in ((pi / 2, "pi/2"), (pi, "pi"), (2 * pi, "2pi"), (4 * pi, "4pi"), (-pi, "-pi"), (3 * pi, "3pi"), (-2 * pi, "-2pi")):
        seqs += [("multiple:" + name, [m]), ("multiple:" + name, [m, m]), ("multiple:" + name, [a, m]), ("multiple:" + name, [m, a]),
                 ("multiple:" + name, [m, a, m]), ("multiple:" + name, [a, m, m, b])]
    seqs += [("mod-2pi", [a, a + 2 * pi]), ("mod-2pi", [a + 2 * pi, a, b]), ("mod-2pi", [a, a + 4 * pi]), ("mod-2pi", [a, b, a - 2 * pi, b + 4 * pi]),
             ("negated", [a, -a]), ("negated", [a, -a, a]), ("negated", [-a, b, -b, a])]
    return seqs


# ------------------------------------------------------------------------------ run
def model_words(ctx, maxlen):
    """ask Coq for the factor words of the model of as_matrix (from the regenerated definitions)"""
    text = (HEADER + "Definition ws := map (fun len => map letter_code (evt_mat_word gen_evt_mat len)) %s.\n"
            "Eval vm_compute in ws.\n" % ct.lst([ct.z(k) for k in range(1, maxlen + 1)]))
    p = ctx.write("words.v", text)
    ok, out = ctx.coqc(p)
    flat = " ".join(out.split())
    m = re.search(r"= (\[.*\])\s*: list \(list Z\)", flat)
    if not ok or not m:
        return None
    s = m.group(1).replace("%Z", "").replace(";", ",")
    try:
        ws = eval(s, {"__builtins__": {}})
    except Exception:
        return None
    return {k + 1: w for k, w in enumerate(ws)}


def mono_cols(M):
    """columns of a monomial matrix as Coq pairs (row of the non-zero entry, entry); a column that is not
    monomial is encoded with the impossible row 2^w (so the model cannot agree with it)"""
    d = M.shape[0]
    cols = []
    for c in range(d):
        nz = np.flatnonzero(np.abs(M[:, c]) > 1e-12)
        if len(nz) == 1:
            cols.append(ct.pair(ct.nat(int(nz[0])), ct.fi(M[int(nz[0]), c])))
        else:
            cols.append(ct.pair(ct.nat(d), ct.fi(0)))
    return cols


def run(ctx):
    import qubitization as gen
    import qib
    ctx.trusted.append(
        "C19: gate semantics (Rz = diag(e^{-ia/2}, e^{ia/2}), controlled gates active on the listed control bits, "
        "PhaseFactorGate = global phase, multi-controlled X = bit flip; embedding on wires) is the hand-written model "
        "Qib.Qubitization.QubitModel, tied by correspondence (gate lists exactly; the matrix of every single gate and of "
        "every whole circuit with tolerance 2^-38); "
        "loop bounds, index expressions, angle coefficients, the U / U^-1 pattern and the prepend order are regenerated "
        "from the source; np.exp(1j*x) = cos x + i sin x (theorems *_complex; the theorems over an abstract ring use any "
        "*-homomorphism q -> exp(i q theta), resp. powers of a unit-modulus u); expm of a diagonal matrix = diagonal of exps "
        "(the coefficients in ProjectorControlledPhaseShift.as_matrix are regenerated from the source, its diagonal is compared); BlockEncodingGate.inverse() is the "
        "inverse matrix (C03) - the theorems hold for ANY pair of matrices U, Ui; the oracle uses numpy.linalg.inv of the "
        "implementation's own matrix; Circuit.as_matrix multiplies the gate matrices, first gate rightmost (C05)")
    ctx.assumes.append("qib's block encodings have exactly one auxiliary qubit (all three methods), so with them the eigenvalue "
                       "transformation has one encoding qubit (the theorems are for any number; the harness also runs a "
                       "user-defined block encoding with 2-3 encoding qubits); projection state all zeros (the only one as_circuit accepts)")
    nmax = 8 if ctx.thorough else 4          # Coq correspondence: number of encoding qubits
    lmax = 24 if ctx.thorough else 9         # Coq correspondence: number of angles
    ctx.lib(["Qubitization/QubitCheck", "Qubitization/EvtProofs", "Qubitization/QubitReal",
             "Qubitization/HistProofs", "Qubitization/HistCheck"])
    ok_tr = ctx.translate("GenQubitization", gen.generate)
    # setters + what the getters do to the object (separate module: its diagnosis survives a refusal of the first translator)
    ok_hist = ctx.translate("GenQubitHist", gen.generate_hist)
    try:
        facts = gen.hist_facts()
        ctx.oblige("source:getters-build-new-objects", "translator", all(k == "GFresh" for k, _ in facts.values()),
                   "; ".join("%s: %s" % (c, d) for c, (k, d) in facts.items()))
    except Exception as e:
        ctx.oblige("source:getters-build-new-objects", "translator", False, "%s: %s" % (type(e).__name__, e))
    ok_tr = ok_tr and ok_hist
    if ok_tr:
        ctx.props()
    else:
        ctx.oblige("props:C19", "theorem", False, "not compiled: translator failed")

    rng = ctx.rng
    cases = []
    # a broken obligation widens the oracle sweeps (to turn the breakage into a failing input)
    deep = ctx.thorough or bool(ctx.broken)
    nor = 10 if deep else 7          # oracle range for the number of encoding qubits
    lor = 32 if deep else lmax       # oracle range for the number of angles
    ctx.rules.append("phase shift: n = 1..%d encoding qubits (numpy oracles up to %d; 10 when an obligation is broken) x both methods x "
                     "random dyadic angles of both signs (model cases: gate list, every single gate's matrix, circuit matrix) + "
                     "non-dyadic / zero / large angles (numpy oracles only); eigenvalue transformation: "
                     "lengths 1..%d (oracles up to %d) x {Wx, Wxi, R} x {c-phase, auxiliary} x random complex Hermitian H (||H|| < 1) on 1-%d system qubits "
                     "with distinct random angles, + a user-defined block encoding with 2-3 encoding qubits. "
                     "non-trivial = theta != 0 and (n >= 2 or an EVT case); distinct by the full input"
                     % (nmax, nor, lmax, lor, 3 if ctx.thorough else 2))

    sampled = set()

    def add(term, desc, nontrivial=True):
        cases.append((term, desc))
        if nontrivial:
            ctx.nontriv(desc)
            # evidence samples: one non-trivial case per kind of comparison
            cat = (desc["op"], desc.get("enc") == "general")
            if cat not in sampled and len(sampled) < 6 and desc.get("n", desc.get("len", 0)) >= 3:
                sampled.add(cat)
                ctx.sample(desc)

    def oracle_only(desc, nontrivial):
        """an input on which only the numpy oracles ran (no exact model case)"""
        ctx.evaluations += 1
        if nontrivial:
            ctx.nontriv(dict(desc, op="oracle"))

    def dyadic():
        v = rng.randint(1, 511) / 128.0
        return v if rng.random() < 0.7 else -v

    def distinct_angles(n):
        thetas = []
        while len(thetas) < n:
            t = dyadic()
            if all(abs(t - s) > 1e-9 for s in thetas):
                thetas.append(t)
        return thetas

    def seq_angles(n):
        """angle sequences for the histories: pairwise distinct, or (45%) with equal values - constant, palindrome, one value
        repeated at two random positions, zeros"""
        th = distinct_angles(n)
        r = rng.random()
        if n >= 2 and r < 0.15:
            th = [th[0]] * n
        elif n >= 2 and r < 0.27:
            th = [th[min(i, n - 1 - i)] for i in range(n)]
        elif n >= 2 and r < 0.4:
            i, j = rng.sample(range(n), 2)
            th[j] = th[i]
        elif r < 0.45:
            th[rng.randrange(n)] = 0.0
            if n >= 2:
                th[rng.randrange(n)] = 0.0
        return th

    # ---------------------------------------------------------------- phase shift circuits
    reps = 12 if ctx.thorough else 4
    for n in range(1, nor + 1):
        for method in ("c-phase", "auxiliary"):
            for rep in range(reps if n <= nmax else 2):
                theta = dyadic()
                ctx.count("phase_%s_n=%d" % (method, n))
                try:
                    proc, fields, circ, M = oracle_phase(ctx, n, method, theta)
                except Exception as e:
                    ctx.fail("phase-shift:exception:" + type(e).__name__, {"kind": "phase", "n": n, "method": method, "theta": theta},
                             "a circuit", repr(e))
                    continue
                desc = {"kind": "phase", "n": n, "method": method, "theta": theta}
                if n > nmax:
                    oracle_only(desc, True)
                    continue
                aux = method == "auxiliary"
                terms = [gate_term(g, fields, theta) for g in circ.gates]
                if any(t is None for t in terms):
                    ctx.oblige("correspondence:gate-kinds", "correspondence", False,
                               "unmodelled gate kind in %r: %s" % (desc, [type(g).__name__ for g in circ.gates]))
                    continue
                add("CGates %s %s %s" % (ct.b(aux), ct.nat(n), ct.lst(terms)), dict(desc, op="gate list"), n >= 2)
                # matrix, column by column
                w = n + (1 if aux else 0)
                md = 0 if aux else n - 1
                u = np.exp(1j * theta / 2 ** md)
                add("CMono %s %s %s %s %s" % (ct.b(aux), ct.nat(n), ct.z(md), ct.fi(u), ct.lst(mono_cols(M))),
                    dict(desc, op="circuit matrix"), n >= 2)
                if not aux:
                    A = np.asarray(proc.as_matrix())
                    if A.shape == (2 ** n, 2 ** n) and np.abs(A - np.diag(np.diag(A))).max() < 1e-12:
                        add("CPmat %s %s %s" % (ct.nat(n), ct.fi(np.exp(1j * theta)), ct.lst([ct.fi(z) for z in np.diag(A)])),
                            dict(desc, op="as_matrix diagonal"), n >= 2)
                # every single gate: the matrix of a circuit consisting of that gate alone
                if rep < 2 and n <= 6:
                    for k, (g, t) in enumerate(zip(circ.gates, terms)):
                        try:
                            c1 = qib.Circuit()
                            c1.append_gate(g)
                            G = c1.as_matrix(fields).toarray()
                        except Exception as e:
                            ctx.fail("phase-shift:exception:" + type(e).__name__, dict(desc, gate=k), "the matrix of one gate", repr(e))
                            continue
                        ctx.count("single_gate_%s" % t.split()[0])
                        add("CGateMx %s %s %s (%s) %s" % (ct.nat(w), ct.z(md), ct.fi(u), t, ct.lst(mono_cols(G))),
                            dict(desc, op="single gate matrix", gate=k, term=t.split()[0]), n >= 2)
    # angles that are not dyadic (no exact model case: numpy oracles only), zero, tiny, many turns
    specials = [0.0, math.pi / 3, -1e-3, 7.25 * math.pi, -math.pi, 1e-9]
    for n in range(1, (8 if deep else 6) + 1):
        for method in ("c-phase", "auxiliary"):
            for theta in specials + [rng.uniform(-7, 7) for _ in range(4 if ctx.thorough else 2)]:
                ctx.count("phase_oracle_only_%s" % method)
                try:
                    oracle_phase(ctx, n, method, theta)
                except Exception as e:
                    ctx.fail("phase-shift:exception:" + type(e).__name__, {"kind": "phase", "n": n, "method": method, "theta": theta},
                             "a circuit", repr(e))
                    continue
                oracle_only({"kind": "phase", "n": n, "method": method, "theta": theta}, n >= 2 and theta != 0)

    # ---------------------------------------------------------------- eigenvalue transformation
    words = model_words(ctx, lmax) if ok_tr else None
    if ok_tr and words is None:
        ctx.oblige("correspondence:evt-model-words", "correspondence", False, "could not evaluate the model words")
    word_bad = []
    nword = 0

    def word_product(wd, n, proc, block, U, thetas, nenc, L):
        idL = np.identity(2 ** L)
        prod = np.identity(2 ** (L + nenc), dtype=complex)
        for code in wd:
            if code >= n:
                prod = prod * np.nan
            elif code >= 0:
                proc.set_theta(thetas[code])
                prod = prod @ np.kron(np.asarray(proc.as_matrix()), idL)
            else:
                prod = prod @ (np.asarray(block.inverse().as_matrix()) if code == -2 else U)
        return prod

    for n in range(1, lor + 1):
        for enc_method in ("Wx", "Wxi", "R"):
            for proc_method in ("c-phase", "auxiliary"):
                for rep in range((3 if n <= lmax else 1) if ctx.thorough else 1):
                    L = rng.choice([1, 2, 2, 3]) if ctx.thorough else rng.choice([1, 2])
                    H = rand_herm(rng, L)
                    thetas = distinct_angles(n)
                    if rep == 2:      # non-dyadic angles (the letter comparison does not need exact angles)
                        thetas = [t + rng.uniform(-0.003, 0.003) for t in thetas]
                    ctx.count("evt_len=%d" % n)
                    ctx.count("evt_%s_%s" % (enc_method, proc_method))
                    ctx.count("evt_L=%d" % L)
                    desc = {"kind": "evt", "len": n, "L": L, "enc": enc_method, "proc": proc_method, "thetas": thetas}
                    try:
                        et, block, proc, letters, M, U, Ui = oracle_evt(ctx, L, H, enc_method, proc_method, thetas)
                    except Exception as e:
                        ctx.fail("evt:exception:" + type(e).__name__,
                                 {"kind": "evt", "L": L, "H": cplx_list(H), "enc_method": enc_method,
                                  "proc_method": proc_method, "thetas": thetas}, "a matrix and a circuit", repr(e))
                        continue
                    if n > lmax:
                        oracle_only(desc, True)
                        continue
                    add("CEvtCirc %s %s %s" % (ct.z(n), ct.b(enc_method == "R"), letters_term(letters)),
                        dict(desc, op="as_circuit gate groups"))
                    # as_matrix against the product along the model's word, with the implementation's own factors
                    if words is not None:
                        prod = word_product(words[n], n, proc, block, U, thetas, 1, L)
                        nword += 1
                        ctx.nontriv(dict(desc, op="as_matrix vs model word"))
                        if not np.allclose(prod, M, atol=1e-8):
                            word_bad.append(desc)
    # a user-defined block encoding with several encoding qubits: the cascaded c-phase circuit / the n-fold
    # controlled X inside the eigenvalue transformation, np.kron(phase shift on n qubits, identity)
    mlen = 10 if ctx.thorough else 6
    for n in range(1, mlen + 1):
        for nenc in (2, 3):
            for proc_method in ("c-phase", "auxiliary"):
                for rep in range(2 if ctx.thorough else 1):
                    L = rng.choice([1, 2])
                    V = rand_unitary(rng, 2 ** (nenc + L))
                    thetas = distinct_angles(n)
                    ctx.count("evt_general_nenc=%d" % nenc)
                    ctx.count("evt_len=%d" % n)
                    desc = {"kind": "evt", "len": n, "L": L, "enc": "general", "nenc": nenc, "proc": proc_method, "thetas": thetas}
                    try:
                        et, block, proc, letters, M, U, Ui = oracle_evt(ctx, L, None, "general", proc_method, thetas, nenc=nenc, V=V)
                    except Exception as e:
                        ctx.fail("evt:exception:" + type(e).__name__,
                                 {"kind": "evt", "L": L, "V": cplx_list(V), "nenc": nenc, "enc_method": "general",
                                  "proc_method": proc_method, "thetas": thetas}, "a matrix and a circuit", repr(e))
                        continue
                    if any(v is None for k, v in letters):
                        continue
                    add("CEvtCirc %s false %s" % (ct.z(n), letters_term(letters)), dict(desc, op="as_circuit gate groups"))
                    if words is not None:
                        prod = word_product(words[n], n, proc, block, U, thetas, nenc, L)
                        nword += 1
                        ctx.nontriv(dict(desc, op="as_matrix vs model word"))
                        if not np.allclose(prod, M, atol=1e-8):
                            word_bad.append(desc)
    # ---------------------------------------------------------------- angle sequences with equal / special values
    ctx.rules.append("eigenvalue transformation, angle sequences that are NOT pairwise distinct (numpy oracles: alternating product with "
                     "the implementation's U and numpy.linalg.inv(U), dependence on every angle, circuit block, number of encodings): two "
                     "equal entries at every pair of positions for lengths 2..%d, constant sequences up to length 12, palindromes, two-valued "
                     "patterns, sequences with 0 / -0.0 / multiples of pi/2, pi, 2pi, 4pi, values equal modulo 2pi, a and -a; x {Wx, Wxi, R} x "
                     "{c-phase, auxiliary}; a user-defined 2-qubit encoding on a subset; angle containers list / tuple / ndarray / numpy scalars / "
                     "Python ints; Hamiltonians given as library operators (PauliOperator incl. odd-q strings with imaginary weights, Ising, "
                     "Heisenberg) and special dense H (zero, diagonal, real, norm 0.99)" % (7 if ctx.thorough else 5))
    sseqs = structured_sequences(rng, dyadic, ctx.thorough)
    combos = [(e, p) for e in ("Wx", "Wxi", "R") for p in ("c-phase", "auxiliary")]
    for k, (label, thetas) in enumerate(sseqs):
        # every sequence under both non-Hermitian encodings (U^-1 != U) and alternating phase-shift methods; R on every third
        mine = [combos[(k % 2)], combos[2 + ((k + 1) % 2)]] + ([combos[4 + (k % 2)]] if (k % 3 == 0 or ctx.thorough) else [])
        if ctx.thorough:
            mine = combos
        for enc_method, proc_method in mine:
            L = 1 if not ctx.thorough else rng.choice([1, 1, 2])
            H = rand_herm(rng, L)
            ctx.count("evt_structured_%s" % label.split("/")[0].split("@")[0].split(":")[0])
            ctx.count("evt_%s_%s" % (enc_method, proc_method))
            try:
                oracle_evt(ctx, L, H, enc_method, proc_method, thetas)
            except Exception as e:
                ctx.fail("evt:exception:" + type(e).__name__,
                         {"kind": "evt", "L": L, "H": cplx_list(H), "enc_method": enc_method, "proc_method": proc_method, "thetas": thetas},
                         "a matrix and a circuit", repr(e))
                continue
            oracle_only({"kind": "evt", "len": len(thetas), "L": L, "enc": enc_method, "proc": proc_method, "thetas": thetas,
                         "pattern": label}, True)
        if k % 5 == 0 and len(thetas) <= 6:
            V = rand_unitary(rng, 2 ** 3)
            pm = ("c-phase", "auxiliary")[(k // 5) % 2]
            ctx.count("evt_structured_general")
            try:
                oracle_evt(ctx, 1, None, "general", pm, thetas, nenc=2, V=V)
                oracle_only({"kind": "evt", "len": len(thetas), "L": 1, "enc": "general", "nenc": 2, "proc": pm, "thetas": thetas}, True)
            except Exception as e:
                ctx.fail("evt:exception:" + type(e).__name__, {"kind": "evt", "L": 1, "V": cplx_list(V), "nenc": 2, "enc_method": "general",
                                                               "proc_method": pm, "thetas": thetas}, "a matrix and a circuit", repr(e))
    # containers / element types of the angle sequence; the Hamiltonian as a library operator; special dense Hamiltonians
    a1, a2, a3 = distinct_angles(3)
    variants = []
    for seq_as, thetas in (("tuple", [a1, a2, a1]), ("array", [a1, a1]), ("array", [a1, a2, a3, a2]), ("np-scalars", [a2, a2, a1]),
                           ("int", [1.0, 2.0, 1.0, 1.0]), ("int", [0.0, 3.0]), ("int", [2.0, 2.0])):
        variants.append((None, None, seq_as, thetas))
    r2 = 1 / math.sqrt(2)
    for opspec in ({"kind": "pauli", "terms": [["XZ", [0.3, 0.0]], ["-iZY", [0.0, 0.4]]]},           # odd q, imaginary weight
                   {"kind": "pauli", "terms": [["iY", [0.0, -0.6]]]}, {"kind": "pauli", "terms": [["-X", [0.25, 0.0]], ["Z", [0.5, 0.0]]]},
                   {"kind": "ising", "J": 0.2, "h": -0.15, "g": 0.1}, {"kind": "heis", "J": [0.1, -0.12, 0.08], "h": [0.05, 0.1, -0.07]}):
        L = 2 if opspec["kind"] != "pauli" else len(opspec["terms"][0][0].lstrip("-i"))
        variants.append((opspec, L, None, [a1, a2, a2, a1] if opspec["kind"] != "heis" else [a3, a3, a3]))
    for name, Hs in (("zero", np.zeros((2, 2))), ("diagonal", np.diag([0.5, -0.25])), ("real", np.array([[0.3, 0.4], [0.4, -0.3]])),
                     ("norm-0.99", 0.99 * np.array([[0, -1j], [1j, 0]])), ("multiple-of-identity", 0.5 * np.identity(4)),
                     ("rank-one", 0.8 * np.outer([r2, r2 * 1j], [r2, -r2 * 1j]))):
        variants.append((np.asarray(Hs, dtype=complex), None, None, [a1, a2, a1, a1]))
    for k, (spec, L, seq_as, thetas) in enumerate(variants):
        for enc_method, proc_method in (combos[k % 2], combos[2 + (k + 1) % 2], combos[4 + k % 2]):
            ctx.count("evt_variant_%s" % (seq_as or (spec["kind"] if isinstance(spec, dict) else "special-H")))
            if isinstance(spec, dict):
                Hm, opspec, Lk = None, spec, L
            else:
                Hm = spec if spec is not None else rand_herm(rng, 1)
                opspec, Lk = None, int(round(math.log2(Hm.shape[0])))
            try:
                oracle_evt(ctx, Lk, Hm, enc_method, proc_method, thetas, opspec=opspec, seq_as=seq_as)
            except Exception as e:
                ctx.fail("evt:exception:" + type(e).__name__,
                         {"kind": "evt", "L": Lk, "H": cplx_list(Hm) if Hm is not None else None, "op": opspec, "seq_as": seq_as,
                          "enc_method": enc_method, "proc_method": proc_method, "thetas": thetas}, "a matrix and a circuit", repr(e))
                continue
            oracle_only({"kind": "evt", "len": len(thetas), "L": Lk, "enc": enc_method, "proc": proc_method, "thetas": thetas,
                         "variant": seq_as or (spec["kind"] if isinstance(spec, dict) else "special-H %d" % k)}, True)

    # ---------------------------------------------------------------- the TYPE of every angle parameter
    ctx.rules.append("angle types: every angle parameter of the qubitization classes (ProjectorControlledPhaseShift theta through the constructor, "
                     "set_theta, set_theta after an integer-typed construction; EigenvalueTransformation theta_seq) as Python int / bool / Fraction / "
                     "Decimal / complex, numpy int8-64, uint8/16, float16/32/64, longdouble, bool_, complex64, 0-d arrays; sequences as int lists, "
                     "tuples, int64 / int32 / object / float32 arrays, lists of numpy scalars, ints mixed with floats; n = 1..%d encoding qubits, both "
                     "methods (EVT: library encodings and a user-defined encoding with 2-4 encoding qubits, so that the cascaded c-phase runs on integer "
                     "angles); values integral (1, 2, 3, -1, 5, 4, -6, 0) resp. dyadic. The library either refuses the object (exception: counted, "
                     "no claim) or the result equals the numpy reference for float(value) (1e-9; 1e-5 for single / half precision parameters)"
                     % (6 if deep else 5))
    ivals, fvals = [1, 3, 2, -1, 5, 4, -6, 0], [0.375, -1.25, 3.0, 1.0, 2.5]
    vias = ["ctor", "setter", "setter-over-int"]
    k = 0
    for tname in ANGLE_TYPES:
        for n in range(1, (6 if deep else 5) + 1):
            for method in ("c-phase", "auxiliary"):
                k += 1
                integral = typed_angle(0.375, tname) is None
                pool = ivals if integral else fvals
                chosen = [pool[k % len(pool)], pool[(k + 3) % len(pool)]] + ([pool[(k + 1) % len(pool)]] if ctx.thorough else [])
                for j, v in enumerate(chosen):
                    v = float(v)
                    if typed_angle(v, tname) is None:
                        v = 1.0
                    via = vias[(k + j) % 3]
                    desc = {"kind": "phase", "n": n, "method": method, "theta": v, "theta_type": tname, "via": via}
                    try:
                        oracle_phase(ctx, n, method, v, tname, via)
                    except Exception as e:
                        ctx.count("angle_type_refused:%s:%s" % (tname, type(e).__name__))
                        continue
                    ctx.count("angle_type_accepted:%s" % tname)
                    oracle_only(desc, n >= 2 and v != 0)
    seq_kinds = ["int", "int-array", "int32-array", "int-tuple", "object-array", "mixed", "float32-array", "each:np.int64", "each:np.int8", "each:bool",
                 "each:np.float32", "each:Fraction", "each:0d-int", "each:np.longdouble"]
    iseqs = [[1.0, 3.0, -1.0], [5.0, 2.0], [1.0, 1.0, 2.0, 3.0], [3.0], [2.0, -1.0, 4.0, 1.0, 1.0]]
    k = 0
    for seq_as in seq_kinds:
        for nenc in ((1, 2, 3, 4) if deep else (1, 2, 3)):
            for proc_method in ("c-phase", "auxiliary"):
                k += 1
                thetas = iseqs[k % len(iseqs)]
                if seq_as == "each:bool":
                    thetas = [float(abs(t) % 2) for t in thetas]
                elif seq_as in ("float32-array", "each:np.float32", "each:np.longdouble", "mixed"):
                    thetas = [t + (0.375 if i % 2 else 0.0) for i, t in enumerate(thetas)]
                ctx.count("evt_angle_type_%s" % seq_as)
                try:
                    if nenc == 1:
                        enc_method = ("Wx", "Wxi", "R")[k % 3]
                        Hm = rand_herm(rng, 1)
                        oracle_evt(ctx, 1, Hm, enc_method, proc_method, thetas, seq_as=seq_as)
                    else:
                        enc_method = "general"
                        oracle_evt(ctx, 1, None, "general", proc_method, thetas, nenc=nenc, V=rand_unitary(rng, 2 ** (nenc + 1)), seq_as=seq_as)
                except Exception as e:
                    ctx.count("angle_type_refused:seq:%s:%s" % (seq_as, type(e).__name__))
                    continue
                ctx.count("angle_type_accepted:seq:%s" % seq_as)
                oracle_only({"kind": "evt", "len": len(thetas), "L": 1, "enc": enc_method, "nenc": nenc, "proc": proc_method, "thetas": thetas,
                             "variant": "angle type " + seq_as}, True)

    if words is not None:
        ctx.evaluations += nword
        ctx.traces += nword
        ctx.oblige("correspondence:evt-as_matrix-vs-model-word", "correspondence", not word_bad,
                   "%d of %d as_matrix results differ from the product along the model's word; first: %r"
                   % (len(word_bad), nword, word_bad[:1]))

    # ---------------------------------------------------------------- histories on one object
    ctx.rules.append("histories: one ProjectorControlledPhaseShift / EigenvalueTransformation object, getters interleaved with every "
                     "setter (set_theta, set_encoding_qubits, set_auxiliary_qubits, set_method, set_theta_seq, operator replaced / "
                     "changed in place, block encoding gate replaced, processing.set_theta), qubits re-bound inside a larger register; "
                     "after every call every object handed out so far is compared with the numpy reference for the parameters it was "
                     "obtained with; systematic (each setter between two getters, every method combination) + random histories; angle "
                     "sequences of the histories: distinct, constant, palindromic, one value at two positions, zeros")
    hists = []
    for method in ("auxiliary", "c-phase"):
        for n in (1, 2):
            W = n + 2
            enc0, enc1 = list(range(1, n + 1)), list(range(n + 1, 1, -1))
            a0 = 0 if method == "auxiliary" else None
            other = "c-phase" if method == "auxiliary" else "auxiliary"
            t0, t1, t2 = dyadic(), dyadic(), dyadic()
            gets = [["circuit"], ["matrix"]]
            for setter in ([["theta", t1]], [["enc", enc1]] + ([["aux", 1]] if a0 is not None else []),
                           [["aux", W - 1]] if a0 is not None else None,
                           [["method", other]] + ([["aux", 0]] if other == "auxiliary" else [])):
                if setter is not None:
                    hists.append(("phase", W, {"theta": t0, "enc": enc0, "aux": a0, "method": method},
                                  gets + setter + gets + [["theta", t2], ["circuit"]]))
    for _ in range(60 if ctx.thorough else 16):
        hists.append(("phase",) + gen_phase_history(rng, dyadic, ctx.thorough))
    for enc_method in ("Wx", "Wxi", "R"):
        for proc_method in ("auxiliary", "c-phase"):
            other = "c-phase" if proc_method == "auxiliary" else "auxiliary"
            H1, H2 = cplx_list(rand_herm(rng, 1)), cplx_list(rand_herm(rng, 1))
            ca, cb = distinct_angles(2)
            setters = [[["thetas", distinct_angles(rng.randint(2, 4))]], [["thetas", [ca, ca]]], [["thetas", [ca, cb, cb, ca]]], [["enc", 2]],
                       [["anc", 2]] if proc_method == "auxiliary" else None,
                       [["method", other]] + ([["anc", 0]] if other == "auxiliary" else []),
                       [["H", H1]], [["H_inplace", H2]], [["block", {"Wx": "R", "Wxi": "Wx", "R": "Wxi"}[enc_method]]],
                       [["proc_theta", 0.8125]]]
            for setter in setters:
                if setter is not None:
                    init = {"H": cplx_list(rand_herm(rng, 1)), "enc_method": enc_method, "proc_method": proc_method,
                            "thetas": distinct_angles(rng.randint(2, 4)), "enc": 1, "anc": 0, "bind": "before"}
                    hists.append(("evt", 3, 1, init, [["circuit"], ["matrix"]] + setter + [["circuit"], ["matrix"]]))
    for _ in range(60 if ctx.thorough else 14):
        hists.append(("evt",) + gen_evt_history(rng, seq_angles, ctx.thorough))
    for _ in range(60 if ctx.thorough else 16):
        hists.append(("evt",) + gen_evt_model_history(rng, dyadic, seq_angles))
    hcases = []
    MODELLED = {"theta", "enc", "aux", "anc", "method", "thetas", "proc_theta", "circuit", "matrix", "proc_circuit"}
    for hst in hists:
        kind = hst[0]
        ctx.count("history_%s" % kind)
        setters = sorted({o[0] for o in hst[-1] if o[0] not in ("circuit", "matrix", "proc_circuit")})
        for s in setters:
            ctx.count("history_%s_with_%s" % (kind, SETTER_NAME[s].replace(" ", "_")))
        got = []
        try:
            nchk = oracle_phase_history(ctx, *hst[1:], collect=got) if kind == "phase" else oracle_evt_history(ctx, *hst[1:], collect=got)
        except Exception as e:
            inp = ({"kind": "phase-history", "W": hst[1], "init": hst[2], "ops": hst[3]} if kind == "phase" else
                   {"kind": "evt-history", "W2": hst[1], "L": hst[2], "init": hst[3], "ops": hst[4]})
            ctx.fail("history:%s:exception:%s" % (kind, type(e).__name__), inp, "every call of the history succeeds", repr(e))
            continue
        if nchk < 0:
            continue        # a concrete failing history was reported
        ctx.count("history_object_comparisons", nchk)
        # the same history as an exact case of the Coq state-machine model (setters the model has; exact angles)
        if {o[0] for o in hst[-1]} <= MODELLED and hst[-2].get("bind", "before") == "before":
            term = phase_hist_case(hst[-2], hst[-1], got) if kind == "phase" else evt_hist_case(hst[-2], hst[-1], got)
            if term is None:
                ctx.oblige("correspondence:gate-kinds", "correspondence", False, "unmodelled gate kind in a history")
            else:
                hdesc = {"kind": kind + "-history", "op": "history vs state-machine model",
                         "init": {k: v for k, v in hst[-2].items() if k != "H"}, "ops": hst[-1]}
                hcases.append((term, hdesc))
                ctx.nontriv(hdesc)
                ctx.count("history_%s_model_cases" % kind)
        oracle_only({"kind": kind + "-history", "init": {k: v for k, v in hst[-2].items() if k != "H"}, "nops": len(hst[-1]),
                     "setters": setters}, True)
        if len(hst[-1]) >= 6 and ("history", kind) not in sampled:
            sampled.add(("history", kind))
            ctx.sample({"kind": kind + "-history", "init": {k: v for k, v in hst[-2].items() if k != "H"}, "ops":
                        [o if o[0] not in ("H", "H_inplace") else [o[0], "<matrix>"] for o in hst[-1]]}, cap=8)

    if ok_tr:
        dis = ctx.cases("qubitization", HEADER, cases, fn="bad_cases gen_cphase gen_aux gen_evt_circ gen_pmat")
        dis += ctx.cases("histories", HIST_HEADER, hcases, fn=HIST_FN, shard=40)
        for i, d in dis[:5]:
            ctx.log("model/impl disagree on", d)
        if ctx.thorough and not ctx.broken:
            ctx.coqchk()


def replay(ctx, data):
    inp, sig = data["input"], data["sig"]
    before = len(ctx.failing)
    if inp.get("kind") == "phase":
        oracle_phase(ctx, inp["n"], inp["method"], inp["theta"], inp.get("theta_type"), inp.get("via", "ctor"))
    elif inp.get("kind") == "phase-history":
        oracle_phase_history(ctx, inp["W"], inp["init"], inp["ops"])
    elif inp.get("kind") == "evt-history":
        oracle_evt_history(ctx, inp["W2"], inp["L"], inp["init"], inp["ops"])
    elif inp.get("kind") == "evt":
        if "V" in inp:
            oracle_evt(ctx, inp["L"], None, "general", inp["proc_method"], inp["thetas"], nenc=inp["nenc"], V=from_cplx_list(inp["V"]),
                       seq_as=inp.get("seq_as"))
        else:
            oracle_evt(ctx, inp["L"], from_cplx_list(inp["H"]) if inp.get("H") is not None else None, inp["enc_method"], inp["proc_method"],
                       inp["thetas"], opspec=inp.get("op"), seq_as=inp.get("seq_as"))
    # report under the recorded signature only
    hit = [f for f in ctx.failing[before:]]
    ctx.failing[before:] = []
    if hit:
        ctx.fail(sig, inp, data.get("expected"), "still fails: " + "; ".join(f["sig"] for f in hit))
