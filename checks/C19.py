"""C19 - Qubitization circuits equal their defining phase-shift / alternating products."""
import os, sys, re, math
from fractions import Fraction
import numpy as np
from vlib import coqterm as ct

sys.path.insert(0, os.path.join(os.path.dirname(os.path.dirname(os.path.abspath(__file__))), "gen"))

HEADER = "From Coq Require Import PrimFloat.\nFrom Qib Require Import Qubitization.QubitCheck.\nFrom Run Require Import GenQubitization.\n"
TOL = 1e-9


# ------------------------------------------------------------------------------ building inputs
def mk_fields(n):
    import qib
    f_enc = qib.field.Field(qib.field.ParticleType.QUBIT, qib.lattice.IntegerLattice((n,), pbc=False))
    f_aux = qib.field.Field(qib.field.ParticleType.QUBIT, qib.lattice.IntegerLattice((1,), pbc=False))
    return f_enc, f_aux


def mk_phase(n, method, theta):
    import qib
    f_enc, f_aux = mk_fields(n)
    q_enc = [qib.field.Qubit(f_enc, j) for j in range(n)]
    q_aux = qib.field.Qubit(f_aux, 0)
    proc = qib.algorithms.qubitization.ProjectorControlledPhaseShift(theta, n * [0], q_enc, q_aux, method)
    fields = [f_aux, f_enc] if method == "auxiliary" else [f_enc]
    return proc, fields


def shift_ref(n, theta):
    """dense reference exp(i theta (2|0..0><0..0| - 1)) (independent of the library and of the model)"""
    d = np.full(2 ** n, np.exp(-1j * theta))
    d[0] = np.exp(1j * theta)
    return np.diag(d)


class DenseOp:
    """a Hermitian operator given by its matrix on a qubit field (duck-typed AbstractOperator)"""

    def __init__(self, field, mat):
        self.field, self.mat = field, np.asarray(mat, dtype=complex)

    def as_matrix(self):
        from scipy.sparse import csr_matrix
        return csr_matrix(self.mat)

    def fields(self):
        return [self.field]

    def is_hermitian(self):
        return True

    def is_unitary(self):
        return False


def mk_evt(L, H, enc_method, proc_method, thetas):
    import qib
    f_sys = qib.field.Field(qib.field.ParticleType.QUBIT, qib.lattice.IntegerLattice((L,), pbc=False))
    f2 = qib.field.Field(qib.field.ParticleType.QUBIT, qib.lattice.IntegerLattice((2,), pbc=False))
    q_anc, q_enc = qib.field.Qubit(f2, 0), qib.field.Qubit(f2, 1)
    block = qib.operator.BlockEncodingGate(DenseOp(f_sys, H), getattr(qib.operator.BlockEncodingMethod, enc_method))
    block.set_auxiliary_qubits(q_enc)
    proc = qib.algorithms.qubitization.ProjectorControlledPhaseShift(0., [0], q_enc, q_anc, proc_method)
    et = qib.algorithms.qubitization.EigenvalueTransformation(block, proc, theta_seq=list(thetas))
    return et, block, proc, [f2, f_sys]


def rand_unitary(rng, d):
    a = np.array([[complex(rng.gauss(0, 1), rng.gauss(0, 1)) for _ in range(d)] for _ in range(d)])
    q, r = np.linalg.qr(a)
    return q * (np.diag(r) / np.abs(np.diag(r)))


def mk_evt_multi(nenc, L, V, proc_method, thetas):
    """eigenvalue transformation around a user-defined block encoding with nenc >= 2 encoding qubits
    (a GeneralGate with the three attributes EigenvalueTransformation reads), so that the cascaded
    c-phase / the (nenc)-fold controlled X are exercised INSIDE the eigenvalue transformation"""
    import qib

    class MultiEnc(qib.operator.GeneralGate):
        def __init__(self, mat, enc, sysq):
            super().__init__(mat, len(enc) + len(sysq))
            self.auxiliary_qubits, self.sysq = list(enc), list(sysq)
            self.on(self.auxiliary_qubits + self.sysq)

        @property
        def num_aux_qubits(self):
            return len(self.auxiliary_qubits)

        def set_auxiliary_qubits(self, q):
            self.auxiliary_qubits = list(q) if isinstance(q, (list, tuple)) else [q]
            self.on(self.auxiliary_qubits + self.sysq)

        def inverse(self):
            return MultiEnc(self.mat.conj().T, self.auxiliary_qubits, self.sysq)

    f_sys = qib.field.Field(qib.field.ParticleType.QUBIT, qib.lattice.IntegerLattice((L,), pbc=False))
    f2 = qib.field.Field(qib.field.ParticleType.QUBIT, qib.lattice.IntegerLattice((1 + nenc,), pbc=False))
    q_anc = qib.field.Qubit(f2, 0)
    q_enc = [qib.field.Qubit(f2, 1 + j) for j in range(nenc)]
    q_sys = [qib.field.Qubit(f_sys, j) for j in range(L)]
    block = MultiEnc(V, q_enc, q_sys)
    proc = qib.algorithms.qubitization.ProjectorControlledPhaseShift(0., nenc * [0], q_enc, q_anc, proc_method)
    et = qib.algorithms.qubitization.EigenvalueTransformation(block, proc, theta_seq=list(thetas))
    return et, block, proc, [f2, f_sys]


def rand_herm(rng, L):
    d = 2 ** L
    a = np.array([[complex(rng.gauss(0, 1), rng.gauss(0, 1)) for _ in range(d)] for _ in range(d)])
    h = (a + a.conj().T) / 2
    h = h / (np.linalg.norm(h, 2) * rng.uniform(1.15, 2.5))
    return h


def cplx_list(m):
    return [[[float(z.real), float(z.imag)] for z in row] for row in np.asarray(m)]


def from_cplx_list(l):
    return np.array([[complex(a, b) for a, b in row] for row in l])


# ------------------------------------------------------------------------------ canonical views of the implementation
def gate_term(g, fields, theta):
    """one gate of a phase-shift circuit as a Coq pgate term; None if the kind is unknown"""
    import qib
    from qib.util import map_particle_to_wire
    th = Fraction(theta)

    def wire(p):
        return map_particle_to_wire(fields, p)

    def coef(x):
        return ct.q(Fraction(float(x)) / th)
    if type(g) is qib.operator.RzGate:
        return "GRz %s %s" % (coef(g.theta), ct.nat(wire(g.qubit)))
    if type(g) is qib.operator.PhaseFactorGate:
        return "GPhase %s %s" % (coef(g.phi), ct.lst([ct.nat(wire(p)) for p in g.particles()]))
    if type(g) is qib.operator.ControlledGate:
        cs = ct.lst([ct.pair(ct.nat(wire(q)), ct.b(s)) for q, s in zip(g.control_qubits, g.ctrl_state)])
        t = g.tgate
        if type(t) is qib.operator.RzGate:
            return "GCRz %s %s %s" % (cs, coef(t.theta), ct.nat(wire(t.qubit)))
        if type(t) is qib.operator.PauliXGate:
            return "GMCX %s %s" % (cs, ct.nat(wire(t.qubit)))
    return None


def gate_key(g):
    """structural identity of a gate (for matching phase-shift groups inside the EVT circuit)"""
    import qib
    if type(g) is qib.operator.ControlledGate:
        return ("C", tuple(id(q.field) * 1000 + q.index for q in g.control_qubits), tuple(g.ctrl_state), gate_key(g.tgate))
    ps = tuple(id(p.field) * 1000 + p.index for p in g.particles())
    par = getattr(g, "theta", getattr(g, "phi", None))
    return (type(g).__name__, ps, None if par is None else float(par))


def evt_letters(et, block, proc, thetas):
    """gate list of as_circuit() as letters, first applied first: ('P', k) / ('U', inv)"""
    import qib
    circ = et.as_circuit()
    general = type(block) is not qib.operator.BlockEncodingGate
    base = None if general else block.method
    groups, cur = [], []
    for g in circ.gates:
        if type(g) is qib.operator.BlockEncodingGate or (general and isinstance(g, qib.operator.GeneralGate)):
            if cur:
                groups.append(("P", cur))
                cur = []
            if general:
                U = np.asarray(block.as_matrix())
                is_u, is_ui = np.allclose(g.as_matrix(), U), np.allclose(g.as_matrix(), U.conj().T)
                groups.append(("U", True if (is_ui and not is_u) else (False if is_u else None)))
            else:
                groups.append(("U", g.method != base))
        else:
            cur.append(g)
    if cur:
        groups.append(("P", cur))
    refs = []
    for th in thetas:
        proc.set_theta(th)
        refs.append([gate_key(g) for g in proc.as_circuit().gates])
    out = []
    for kind, v in groups:
        if kind == "U":
            out.append(("U", v if v is None else bool(v)))
        else:
            keys = [gate_key(g) for g in v]
            ks = [k for k, r in enumerate(refs) if r == keys]
            out.append(("P", ks[0] if len(ks) == 1 else -1))
    nblock = sum(1 for k, _ in out if k == "U")
    return out, circ, nblock


def letters_term(ls):
    return ct.lst(["LP %s" % ct.z(v) if k == "P" else "LU %s" % ct.b(v) for k, v in ls])


def alt_product(P, U, Ui, n):
    """the defining product P(th_0) U^{-+} ... P(th_{n-1}) U (last factor U)"""
    m = np.identity(U.shape[0], dtype=complex)
    for k in range(n):
        m = m @ P[k] @ (Ui if (n - 1 - k) % 2 == 1 else U)
    return m


# ------------------------------------------------------------------------------ oracles on the implementation
def oracle_phase(ctx, n, method, theta):
    """returns (M, fields, circuit) ; reports violations of the phase-shift clause"""
    proc, fields = mk_phase(n, method, theta)
    inp = {"kind": "phase", "n": n, "method": method, "theta": theta}
    ref = shift_ref(n, theta)
    am = np.asarray(proc.as_matrix())
    if am.shape != ref.shape or not np.allclose(am, ref, atol=TOL):
        ctx.fail("phase-shift:as_matrix != exp(i theta (2|0><0|-1))", inp, "diag(e^{i th}, e^{-i th}, ...)", "differs")
    circ = proc.as_circuit()
    M = circ.as_matrix(fields).toarray()
    d = 2 ** n
    if method == "c-phase":
        if not np.allclose(M, ref, atol=TOL):
            ctx.fail("phase-shift:c-phase:circuit != exp(i theta (2|0><0|-1))" + (" (n>=2)" if n >= 2 else " (n=1)"),
                     inp, "diag(e^{i th}, e^{-i th}, ...)", "max dev %.3g" % np.abs(M - ref).max())
    else:
        if not np.allclose(M[:d, :d], ref, atol=TOL):
            ctx.fail("phase-shift:auxiliary:aux-|0> block != exp(i theta (2|0><0|-1))", inp, None,
                     "max dev %.3g" % np.abs(M[:d, :d] - ref).max())
        if not np.allclose(M[d:, :d], 0, atol=TOL):
            ctx.fail("phase-shift:auxiliary:auxiliary qubit not returned to |0>", inp, "lower-left block 0",
                     "max %.3g" % np.abs(M[d:, :d]).max())
    return proc, fields, circ, M


def oracle_evt(ctx, L, H, enc_method, proc_method, thetas, nenc=1, V=None):
    """H: encoded Hamiltonian (library block encodings, one encoding qubit)  or
    V: a unitary on nenc + L qubits used as a user-defined block encoding with nenc encoding qubits"""
    if V is None:
        et, block, proc, fields = mk_evt(L, H, enc_method, proc_method, thetas)
        inp = {"kind": "evt", "L": L, "H": cplx_list(H), "enc_method": enc_method, "proc_method": proc_method,
               "thetas": list(thetas)}
    else:
        et, block, proc, fields = mk_evt_multi(nenc, L, V, proc_method, thetas)
        inp = {"kind": "evt", "L": L, "V": cplx_list(V), "nenc": nenc, "enc_method": "general", "proc_method": proc_method,
               "thetas": list(thetas)}
    n = len(thetas)
    cls = "len=1" if n == 1 else ("odd len>=3" if n % 2 else ("len=2" if n == 2 else "even len>=4"))
    M = np.asarray(et.as_matrix())
    U = np.asarray(block.as_matrix())
    Ui = np.linalg.inv(U)
    idL = np.identity(2 ** L)
    P = [np.kron(shift_ref(nenc, th), idL) for th in thetas]
    ref = alt_product(P, U, Ui, n)
    if M.shape != ref.shape or not np.allclose(M, ref, atol=1e-8):
        ctx.fail("evt:as_matrix != alternating product P(th0) U^-+ ... P(th_last) U (%s)" % cls, inp,
                 "product with one phase shift per angle", "max dev %.3g" % (np.abs(M - ref).max() if M.shape == ref.shape else -1))
    # depends on every angle
    for k in range(n):
        th2 = list(thetas)
        th2[k] = th2[k] + 0.4375
        et.set_theta_seq(th2)
        M2 = np.asarray(et.as_matrix())
        if np.abs(M2 - M).max() < 1e-6:
            ctx.fail("evt:as_matrix does not depend on an angle (%s)" % cls, dict(inp, angle_index=k),
                     "matrix changes when angle %d changes" % k, "unchanged")
            break
    et.set_theta_seq(list(thetas))
    letters, circ, nblock = evt_letters(et, block, proc, thetas)
    if nblock != n:
        ctx.fail("evt:as_circuit applies the encoding %s len(angles) times (%s)" % ("<" if nblock < n else ">", cls), inp, n, nblock)
    if any(k == "U" and v is None for k, v in letters):
        ctx.fail("evt:as_circuit contains a gate that is neither the encoding nor its inverse (%s)" % cls, inp)
    C = circ.as_matrix(fields).toarray()
    d = 2 ** (L + nenc)
    if not np.allclose(C[:d, :d], M, atol=1e-8):
        ctx.fail("evt:circuit aux-|0> block != as_matrix (%s)" % cls, inp, None, "max dev %.3g" % np.abs(C[:d, :d] - M).max())
    if not np.allclose(C[:d, :d], ref, atol=1e-8):
        ctx.fail("evt:circuit aux-|0> block != alternating product (%s)" % cls, inp, None, "max dev %.3g" % np.abs(C[:d, :d] - ref).max())
    if not np.allclose(C[d:2 * d, :d], 0, atol=1e-8):
        ctx.fail("evt:circuit leaks out of the aux-|0> block (%s)" % cls, inp)
    return et, block, proc, letters, M, U, Ui


# ------------------------------------------------------------------------------ run
def model_words(ctx, maxlen):
    """ask Coq for the factor words of the model of as_matrix (from the regenerated definitions)"""
    text = (HEADER + "Definition ws := map (fun len => map letter_code (evt_mat_word gen_evt_mat len)) %s.\n"
            "Eval vm_compute in ws.\n" % ct.lst([ct.z(k) for k in range(1, maxlen + 1)]))
    p = ctx.write("words.v", text)
    ok, out = ctx.coqc(p)
    flat = " ".join(out.split())
    m = re.search(r"= (\[.*\])\s*: list \(list Z\)", flat)
    if not ok or not m:
        return None
    s = m.group(1).replace("%Z", "").replace(";", ",")
    try:
        ws = eval(s, {"__builtins__": {}})
    except Exception:
        return None
    return {k + 1: w for k, w in enumerate(ws)}


def mono_cols(M):
    """columns of a monomial matrix as Coq pairs (row of the non-zero entry, entry); a column that is not
    monomial is encoded with the impossible row 2^w (so the model cannot agree with it)"""
    d = M.shape[0]
    cols = []
    for c in range(d):
        nz = np.flatnonzero(np.abs(M[:, c]) > 1e-12)
        if len(nz) == 1:
            cols.append(ct.pair(ct.nat(int(nz[0])), ct.fi(M[int(nz[0]), c])))
        else:
            cols.append(ct.pair(ct.nat(d), ct.fi(0)))
    return cols


def run(ctx):
    import qubitization as gen
    import qib
    ctx.trusted.append(
        "C19: gate semantics (Rz = diag(e^{-ia/2}, e^{ia/2}), controlled gates active on the listed control bits, "
        "PhaseFactorGate = global phase, multi-controlled X = bit flip; embedding on wires) is the hand-written model "
        "Qib.Qubitization.QubitModel, tied by correspondence (gate lists exactly; the matrix of every single gate and of "
        "every whole circuit with tolerance 2^-38); "
        "loop bounds, index expressions, angle coefficients, the U / U^-1 pattern and the prepend order are regenerated "
        "from the source; np.exp(1j*x) = cos x + i sin x (theorems *_complex; the theorems over an abstract ring use any "
        "*-homomorphism q -> exp(i q theta), resp. powers of a unit-modulus u); expm of a diagonal matrix = diagonal of exps "
        "(the coefficients in ProjectorControlledPhaseShift.as_matrix are regenerated from the source, its diagonal is compared); BlockEncodingGate.inverse() is the "
        "inverse matrix (C03) - the theorems hold for ANY pair of matrices U, Ui; the oracle uses numpy.linalg.inv of the "
        "implementation's own matrix; Circuit.as_matrix multiplies the gate matrices, first gate rightmost (C05)")
    ctx.assumes.append("qib's block encodings have exactly one auxiliary qubit (all three methods), so with them the eigenvalue "
                       "transformation has one encoding qubit (the theorems are for any number; the harness also runs a "
                       "user-defined block encoding with 2-3 encoding qubits); projection state all zeros (the only one as_circuit accepts)")
    nmax = 8 if ctx.thorough else 4          # Coq correspondence: number of encoding qubits
    lmax = 24 if ctx.thorough else 9         # Coq correspondence: number of angles
    ctx.lib(["Qubitization/QubitCheck", "Qubitization/EvtProofs", "Qubitization/QubitReal"])
    ok_tr = ctx.translate("GenQubitization", gen.generate)
    if ok_tr:
        ctx.props()
    else:
        ctx.oblige("props:C19", "theorem", False, "not compiled: translator failed")

    rng = ctx.rng
    cases = []
    # a broken obligation widens the oracle sweeps (to turn the breakage into a failing input)
    deep = ctx.thorough or bool(ctx.broken)
    nor = 10 if deep else 7          # oracle range for the number of encoding qubits
    lor = 32 if deep else lmax       # oracle range for the number of angles
    ctx.rules.append("phase shift: n = 1..%d encoding qubits (numpy oracles up to %d; 10 when an obligation is broken) x both methods x "
                     "random dyadic angles of both signs (model cases: gate list, every single gate's matrix, circuit matrix) + "
                     "non-dyadic / zero / large angles (numpy oracles only); eigenvalue transformation: "
                     "lengths 1..%d (oracles up to %d) x {Wx, Wxi, R} x {c-phase, auxiliary} x random complex Hermitian H (||H|| < 1) on 1-%d system qubits "
                     "with distinct random angles, + a user-defined block encoding with 2-3 encoding qubits. "
                     "non-trivial = theta != 0 and (n >= 2 or an EVT case); distinct by the full input"
                     % (nmax, nor, lmax, lor, 3 if ctx.thorough else 2))

    sampled = set()

    def add(term, desc, nontrivial=True):
        cases.append((term, desc))
        if nontrivial:
            ctx.nontriv(desc)
            # evidence samples: one non-trivial case per kind of comparison
            cat = (desc["op"], desc.get("enc") == "general")
            if cat not in sampled and len(sampled) < 6 and desc.get("n", desc.get("len", 0)) >= 3:
                sampled.add(cat)
                ctx.sample(desc)

    def oracle_only(desc, nontrivial):
        """an input on which only the numpy oracles ran (no exact model case)"""
        ctx.evaluations += 1
        if nontrivial:
            ctx.nontriv(dict(desc, op="oracle"))

    def dyadic():
        v = rng.randint(1, 511) / 128.0
        return v if rng.random() < 0.7 else -v

    def distinct_angles(n):
        thetas = []
        while len(thetas) < n:
            t = dyadic()
            if all(abs(t - s) > 1e-9 for s in thetas):
                thetas.append(t)
        return thetas

    # ---------------------------------------------------------------- phase shift circuits
    reps = 12 if ctx.thorough else 4
    for n in range(1, nor + 1):
        for method in ("c-phase", "auxiliary"):
            for rep in range(reps if n <= nmax else 2):
                theta = dyadic()
                ctx.count("phase_%s_n=%d" % (method, n))
                try:
                    proc, fields, circ, M = oracle_phase(ctx, n, method, theta)
                except Exception as e:
                    ctx.fail("phase-shift:exception:" + type(e).__name__, {"kind": "phase", "n": n, "method": method, "theta": theta},
                             "a circuit", repr(e))
                    continue
                desc = {"kind": "phase", "n": n, "method": method, "theta": theta}
                if n > nmax:
                    oracle_only(desc, True)
                    continue
                aux = method == "auxiliary"
                terms = [gate_term(g, fields, theta) for g in circ.gates]
                if any(t is None for t in terms):
                    ctx.oblige("correspondence:gate-kinds", "correspondence", False,
                               "unmodelled gate kind in %r: %s" % (desc, [type(g).__name__ for g in circ.gates]))
                    continue
                add("CGates %s %s %s" % (ct.b(aux), ct.nat(n), ct.lst(terms)), dict(desc, op="gate list"), n >= 2)
                # matrix, column by column
                w = n + (1 if aux else 0)
                md = 0 if aux else n - 1
                u = np.exp(1j * theta / 2 ** md)
                add("CMono %s %s %s %s %s" % (ct.b(aux), ct.nat(n), ct.z(md), ct.fi(u), ct.lst(mono_cols(M))),
                    dict(desc, op="circuit matrix"), n >= 2)
                if not aux:
                    A = np.asarray(proc.as_matrix())
                    if A.shape == (2 ** n, 2 ** n) and np.abs(A - np.diag(np.diag(A))).max() < 1e-12:
                        add("CPmat %s %s %s" % (ct.nat(n), ct.fi(np.exp(1j * theta)), ct.lst([ct.fi(z) for z in np.diag(A)])),
                            dict(desc, op="as_matrix diagonal"), n >= 2)
                # every single gate: the matrix of a circuit consisting of that gate alone
                if rep < 2 and n <= 6:
                    for k, (g, t) in enumerate(zip(circ.gates, terms)):
                        try:
                            c1 = qib.Circuit()
                            c1.append_gate(g)
                            G = c1.as_matrix(fields).toarray()
                        except Exception as e:
                            ctx.fail("phase-shift:exception:" + type(e).__name__, dict(desc, gate=k), "the matrix of one gate", repr(e))
                            continue
                        ctx.count("single_gate_%s" % t.split()[0])
                        add("CGateMx %s %s %s (%s) %s" % (ct.nat(w), ct.z(md), ct.fi(u), t, ct.lst(mono_cols(G))),
                            dict(desc, op="single gate matrix", gate=k, term=t.split()[0]), n >= 2)
    # angles that are not dyadic (no exact model case: numpy oracles only), zero, tiny, many turns
    specials = [0.0, math.pi / 3, -1e-3, 7.25 * math.pi, -math.pi, 1e-9]
    for n in range(1, (8 if deep else 6) + 1):
        for method in ("c-phase", "auxiliary"):
            for theta in specials + [rng.uniform(-7, 7) for _ in range(4 if ctx.thorough else 2)]:
                ctx.count("phase_oracle_only_%s" % method)
                try:
                    oracle_phase(ctx, n, method, theta)
                except Exception as e:
                    ctx.fail("phase-shift:exception:" + type(e).__name__, {"kind": "phase", "n": n, "method": method, "theta": theta},
                             "a circuit", repr(e))
                    continue
                oracle_only({"kind": "phase", "n": n, "method": method, "theta": theta}, n >= 2 and theta != 0)

    # ---------------------------------------------------------------- eigenvalue transformation
    words = model_words(ctx, lmax) if ok_tr else None
    if ok_tr and words is None:
        ctx.oblige("correspondence:evt-model-words", "correspondence", False, "could not evaluate the model words")
    word_bad = []
    nword = 0

    def word_product(wd, n, proc, block, U, thetas, nenc, L):
        idL = np.identity(2 ** L)
        prod = np.identity(2 ** (L + nenc), dtype=complex)
        for code in wd:
            if code >= n:
                prod = prod * np.nan
            elif code >= 0:
                proc.set_theta(thetas[code])
                prod = prod @ np.kron(np.asarray(proc.as_matrix()), idL)
            else:
                prod = prod @ (np.asarray(block.inverse().as_matrix()) if code == -2 else U)
        return prod

    for n in range(1, lor + 1):
        for enc_method in ("Wx", "Wxi", "R"):
            for proc_method in ("c-phase", "auxiliary"):
                for rep in range((3 if n <= lmax else 1) if ctx.thorough else 1):
                    L = rng.choice([1, 2, 2, 3]) if ctx.thorough else rng.choice([1, 2])
                    H = rand_herm(rng, L)
                    thetas = distinct_angles(n)
                    if rep == 2:      # non-dyadic angles (the letter comparison does not need exact angles)
                        thetas = [t + rng.uniform(-0.003, 0.003) for t in thetas]
                    ctx.count("evt_len=%d" % n)
                    ctx.count("evt_%s_%s" % (enc_method, proc_method))
                    ctx.count("evt_L=%d" % L)
                    desc = {"kind": "evt", "len": n, "L": L, "enc": enc_method, "proc": proc_method, "thetas": thetas}
                    try:
                        et, block, proc, letters, M, U, Ui = oracle_evt(ctx, L, H, enc_method, proc_method, thetas)
                    except Exception as e:
                        ctx.fail("evt:exception:" + type(e).__name__,
                                 {"kind": "evt", "L": L, "H": cplx_list(H), "enc_method": enc_method,
                                  "proc_method": proc_method, "thetas": thetas}, "a matrix and a circuit", repr(e))
                        continue
                    if n > lmax:
                        oracle_only(desc, True)
                        continue
                    add("CEvtCirc %s %s %s" % (ct.z(n), ct.b(enc_method == "R"), letters_term(letters)),
                        dict(desc, op="as_circuit gate groups"))
                    # as_matrix against the product along the model's word, with the implementation's own factors
                    if words is not None:
                        prod = word_product(words[n], n, proc, block, U, thetas, 1, L)
                        nword += 1
                        ctx.nontriv(dict(desc, op="as_matrix vs model word"))
                        if not np.allclose(prod, M, atol=1e-8):
                            word_bad.append(desc)
    # a user-defined block encoding with several encoding qubits: the cascaded c-phase circuit / the n-fold
    # controlled X inside the eigenvalue transformation, np.kron(phase shift on n qubits, identity)
    mlen = 10 if ctx.thorough else 6
    for n in range(1, mlen + 1):
        for nenc in (2, 3):
            for proc_method in ("c-phase", "auxiliary"):
                for rep in range(2 if ctx.thorough else 1):
                    L = rng.choice([1, 2])
                    V = rand_unitary(rng, 2 ** (nenc + L))
                    thetas = distinct_angles(n)
                    ctx.count("evt_general_nenc=%d" % nenc)
                    ctx.count("evt_len=%d" % n)
                    desc = {"kind": "evt", "len": n, "L": L, "enc": "general", "nenc": nenc, "proc": proc_method, "thetas": thetas}
                    try:
                        et, block, proc, letters, M, U, Ui = oracle_evt(ctx, L, None, "general", proc_method, thetas, nenc=nenc, V=V)
                    except Exception as e:
                        ctx.fail("evt:exception:" + type(e).__name__,
                                 {"kind": "evt", "L": L, "V": cplx_list(V), "nenc": nenc, "enc_method": "general",
                                  "proc_method": proc_method, "thetas": thetas}, "a matrix and a circuit", repr(e))
                        continue
                    if any(v is None for k, v in letters):
                        continue
                    add("CEvtCirc %s false %s" % (ct.z(n), letters_term(letters)), dict(desc, op="as_circuit gate groups"))
                    if words is not None:
                        prod = word_product(words[n], n, proc, block, U, thetas, nenc, L)
                        nword += 1
                        ctx.nontriv(dict(desc, op="as_matrix vs model word"))
                        if not np.allclose(prod, M, atol=1e-8):
                            word_bad.append(desc)
    if words is not None:
        ctx.evaluations += nword
        ctx.traces += nword
        ctx.oblige("correspondence:evt-as_matrix-vs-model-word", "correspondence", not word_bad,
                   "%d of %d as_matrix results differ from the product along the model's word; first: %r"
                   % (len(word_bad), nword, word_bad[:1]))

    if ok_tr:
        dis = ctx.cases("qubitization", HEADER, cases, fn="bad_cases gen_cphase gen_aux gen_evt_circ gen_pmat")
        for i, d in dis[:5]:
            ctx.log("model/impl disagree on", d)
        if ctx.thorough and not ctx.broken:
            ctx.coqchk()


def replay(ctx, data):
    inp, sig = data["input"], data["sig"]
    before = len(ctx.failing)
    if inp.get("kind") == "phase":
        oracle_phase(ctx, inp["n"], inp["method"], inp["theta"])
    elif inp.get("kind") == "evt":
        if "V" in inp:
            oracle_evt(ctx, inp["L"], None, "general", inp["proc_method"], inp["thetas"], nenc=inp["nenc"], V=from_cplx_list(inp["V"]))
        else:
            oracle_evt(ctx, inp["L"], from_cplx_list(inp["H"]), inp["enc_method"], inp["proc_method"], inp["thetas"])
    # report under the recorded signature only
    hit = [f for f in ctx.failing[before:]]
    ctx.failing[before:] = []
    if hit:
        ctx.fail(sig, inp, data.get("expected"), "still fails: " + "; ".join(f["sig"] for f in hit))
