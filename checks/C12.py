"""C12 - parity encoding is a faithful parity-basis representation.
The harness is the encoder suite of checks/C11.py with parity=True: encoded ladder operators
(CAR, |0..0>, occupation number = (1 - Z_{i-1} Z_i)/2), homomorphism (encoded operator = same sum of
ordered products of the encoded ladder operators), spectra, exact string lists vs the model."""
from checks import C11 as enc


def run(ctx):
    enc.encoder_run(ctx, True)


def replay(ctx, data):
    enc.encoder_replay(ctx, data)
