"""C01 - every gate reports a unitary matrix of size 2^num_wires (elementary gate classes).

This module also hosts the machinery shared by checks/C02.py, C03.py, C16.py (gate instance
generator, evaluation of the translator's atom specifications, case construction, oracles).
Composite gates are handled by checks/gates_composite.py (called at the end if present).
"""
import math, os, sys
import numpy as np
from vlib import coqterm as ct

sys.path.insert(0, os.path.join(os.path.dirname(os.path.dirname(os.path.abspath(__file__))), "gen"))

HEADER = ("From Coq Require Import PrimFloat.\nFrom Qib Require Import Gates.ElemCheck.\nFrom Run Require Import GenGates.\n"
          "Definition bad_cases := bad_cases_db gen_db.\n")
LIB = ["Gates/ElemCheck", "Gates/ElemReal", "Gates/ElemSpec", "Gates/ElemDeriv"]
ORACLE_TOL = 1e-9

TRUSTED = ("%s: elementary gates: closed forms, atom specifications, is_hermitian constants, num_wires, inverse() and "
           "particles() forms are regenerated from gates.py by gen/gates.py (fail-closed) and the theorems are recompiled "
           "against them; np.cos/np.sin/np.sqrt/np.linalg.norm are taken to be the real functions, np.exp(1j*x) = cos x + i sin x "
           "(identification of R_P(theta) = cos(theta/2) - i sin(theta/2) P with the power series exp(-i theta P/2) is background); "
           "the variadic on(*args) of PhaseFactorGate/GeneralGate is hand-modelled (stores the given particles; its syntax is "
           "compared with the modelled text); GeneralGate(M, n).as_matrix() = M is read off the source; "
           "binary64 rounding/overflow is not modelled (correspondence tolerance 2^-40, oracle tolerance 1e-9)")


# ----------------------------------------------------------------------------- AST evaluation (harness side)
def eval_r(e, params, atoms):
    t = e[0]
    if t == "par":
        return float(params[e[1]])
    if t == "atom":
        return float(np.real(atoms[e[1]]))
    if t == "num":
        return float(e[1])
    if t == "pi":
        return float(np.pi)
    if t == "neg":
        return -eval_r(e[1], params, atoms)
    a, b = eval_r(e[1], params, atoms), eval_r(e[2], params, atoms)
    with np.errstate(all="ignore"):
        if t == "add":
            return a + b
        if t == "sub":
            return a - b
        if t == "mul":
            return a * b
        if t == "div":
            return float(np.float64(a) / np.float64(b))
    raise ValueError(t)


def eval_atoms(specs, params):
    """atom values in the order of the generated template arguments (numpy's functions)"""
    atoms = []
    with np.errstate(all="ignore"):
        for a in specs:
            k = a["kind"]
            if k == "APar":
                v = complex(float(params[a["k"]]))
            elif k == "ANorm":
                v = complex(float(np.linalg.norm(np.asarray([params[i] for i in a["ks"]], dtype=float))))
            elif k == "AInv":
                v = complex(float(np.float64(1.0) / np.float64(np.real(atoms[a["k"]]))))
            else:
                x = eval_r(tuple_ast(a["e"]), params, atoms)
                if k == "ACos":
                    v = complex(float(np.cos(x)))
                elif k == "ASin":
                    v = complex(float(np.sin(x)))
                elif k == "ASqrt":
                    v = complex(float(np.sqrt(x)))
                elif k == "AExpI":
                    v = complex(np.exp(1j * x))
                else:
                    raise ValueError(k)
            atoms.append(v)
    return atoms


def tuple_ast(e):
    return tuple(tuple_ast(x) if isinstance(x, list) else x for x in e)


def guard_value(c, atoms):
    if c["guard"] is None:
        return False
    return bool(np.real(atoms[c["guard"]["atom"]]) == 0)


# ----------------------------------------------------------------------------- gate instances
ANGLES = [0.0, math.pi, -math.pi, math.pi / 2, 2 * math.pi, 3 * math.pi, 4 * math.pi, -7 * math.pi / 2,
          1e-9, -1e-12, 1e-300, 5e-324, 1e6, -1e9, 1e15, 1e22, 1e300, -0.7, 1.0, 2.5]
VECS = [(0.0, 0.0, 0.0), (-0.0, 0.0, -0.0), (1e-200, 0.0, 0.0), (0.0, -1e-160, 1e-160), (5e-324, 0.0, 0.0), (1e-170, 1e-170, 0.0),
        (1e-9, -2e-9, 0.0), (math.pi, 0.0, 0.0), (0.0, 2 * math.pi, 0.0), (0.0, 0.0, -math.pi), (1.0, 2.0, -2.0),
        (1e150, 2e150, -1e150), (3e7, -4e7, 0.0), (0.3, -0.4, 1.2), (1e-3 / 2, 0.0, 0.0), (6e-4, -3e-4, 2e-4)]
# |v|^2 overflows binary64 beyond ~1.3e154: np.linalg.norm returns inf and the matrix is NaN (known finding)
OVERFLOW_VEC = (1e200, 0.0, 0.0)


class Inst:
    """one gate object together with the description needed to rebuild it"""

    def __init__(self, cls, params, n, binding, how):
        self.cls, self.params, self.n, self.binding, self.how = cls, list(params), n, binding, how

    def desc(self):
        return {"cls": self.cls, "params": self.params, "n": self.n, "bound": self.binding, "how": self.how}


def make_fields(qib):
    f1 = qib.field.Field(qib.field.ParticleType.QUBIT, qib.lattice.IntegerLattice((4,), pbc=False))
    f2 = qib.field.Field(qib.field.ParticleType.QUBIT, qib.lattice.IntegerLattice((2, 2), pbc=False))
    return [f1, f2]


def build_gate(qib, fields, d):
    """construct the gate described by d (a dict as produced by Inst.desc)"""
    cls, params, n, binding, how = d["cls"], d["params"], d["n"], d["bound"], d.get("how", "ctor")
    # parameter TYPE dimension: "ctor:int" hands Python ints, "ctor:npint" numpy integers, "ctor:np64" numpy floats (float32
    # parameters are not generated: numpy then evaluates cos/sin in single precision, the matrix is unitary to 1e-8 only - by request)
    how, _, ptype = how.partition(":")
    if ptype:
        conv = {"int": int, "npint": np.int64, "np32": np.float32, "np64": np.float64}[ptype]
        if cls == "RotationGate" and ptype != "int":
            params = np.array(params, dtype=conv)          # an array of that dtype (not a list of scalars)
            how = "asis"
        else:
            params = [conv(x) for x in params]
    G = getattr(qib.operator, cls, None) or getattr(qib, cls)
    qs = [qib.field.Qubit(fields[f], i) for f, i in binding] if binding else []
    one = ("IdentityGate", "PauliXGate", "PauliYGate", "PauliZGate", "HadamardGate", "SxGate", "SGate", "SAdjGate", "TGate", "TAdjGate")
    if cls in one:
        if not qs:
            return G(), qs
        return (G().on(qs[0]) if how == "on" else G(qs[0])), qs
    if cls in ("RxGate", "RyGate", "RzGate"):
        if not qs:
            return G(params[0]), qs
        return (G(params[0]).on(qs[0]) if how == "on" else G(params[0], qs[0])), qs
    if cls == "RotationGate":
        v = {"ctor": list, "on": list, "tuple": tuple, "array": np.array, "asis": lambda x: x}[how](params)
        if not qs:
            return G(v), qs
        return (G(v).on(qs[0]) if how == "on" else G(v, qs[0])), qs
    if cls == "PhaseFactorGate":
        g = G(params[0], n)
        if qs:
            g = g.on(qs) if how == "on" else g.on(*qs)
        return g, qs
    if cls in ("RxxGate", "RyyGate", "RzzGate"):
        if not qs:
            return G(params[0], None, None), qs
        return G(params[0], qs[0], qs[1]), qs
    if cls == "ISwapGate":
        if not qs:
            return G(), qs
        return (G().on(qs[0], qs[1]) if how == "on" else G(qs[0], qs[1])), qs
    raise ValueError(cls)


def instances(ctx, desc):
    """class x parameter grid x binding"""
    rng = ctx.rng
    sites = [(0, i) for i in range(4)] + [(1, i) for i in range(4)]
    out = []

    def bindings(nq):
        b = [None]
        for _ in range(2 if not ctx.thorough else 4):
            b.append(rng.sample(sites, nq))
        return b

    def angles():
        a = list(ANGLES)
        a += [rng.uniform(-10, 10) for _ in range(12 if not ctx.thorough else 200)]
        a += [rng.choice([-1, 1]) * 10 ** rng.uniform(-12, 18) for _ in range(6 if not ctx.thorough else 100)]
        a += [k * math.pi / 4 for k in rng.sample(range(-40, 41), 4 if not ctx.thorough else 40)]
        return a

    def vecs():
        v = list(VECS)
        for _ in range(12 if not ctx.thorough else 300):
            v.append(tuple(rng.gauss(0, 1) * 10 ** rng.choice([0, 0, 0, -6, 3]) for _ in range(3)))
        for _ in range(4 if not ctx.thorough else 60):
            k = rng.randrange(3)
            w = [0.0, 0.0, 0.0]
            w[k] = rng.choice([-1, 1]) * 10 ** rng.uniform(-300, -3)
            v.append(tuple(w))
        for _ in range(4 if not ctx.thorough else 40):    # norm just below / above 1e-3
            s = 1e-3 * rng.uniform(0.2, 1.8)
            u = [rng.gauss(0, 1) for _ in range(3)]
            nu = math.sqrt(sum(x * x for x in u))
            v.append(tuple(s * x / nu for x in u))
        return v
    for cls in [c for c in desc["classes"] if not desc["classes"][c].get("target_only")]:
        c = desc["classes"][cls]
        npar = len(c["params"])
        if cls == "PhaseFactorGate":
            for n in range(0, 4 if not ctx.thorough else 6):
                for phi in angles()[:: (3 if not ctx.thorough else 1)]:
                    for b in ([None] + ([rng.sample(sites, n)] if n else [])):
                        out.append(Inst(cls, [phi], n, b, rng.choice(["ctor", "on"])))
                for phi, pt in ((1, "int"), (-2, "npint"), (0.5, "np64")):
                    out.append(Inst(cls, [float(phi)], n, None, "ctor:" + pt))
        elif cls == "RotationGate":
            for v in vecs():
                for b in bindings(1):
                    out.append(Inst(cls, v, 0, b, rng.choice(["ctor", "on", "tuple", "array"])))
            for v, pt in (((1, 2, -2), "int"), ((0, 0, 0), "int"), ((0, 3, 0), "npint"), ((0, 0, 0), "npint"), ((1.5, 0.0, -0.5), "np64")):
                out.append(Inst(cls, [float(x) for x in v], 0, None, "ctor:" + pt))
        elif npar == 1:
            nq = 2 if cls in ("RxxGate", "RyyGate", "RzzGate") else 1
            for th in angles():
                for b in bindings(nq):
                    out.append(Inst(cls, [th], 0, b, rng.choice(["ctor", "on"])))
            # parameter type: Python int / numpy integer / numpy float64 scalars
            for th, pt in ((1, "int"), (-3, "int"), (0, "int"), (2, "npint"), (-7, "npint"), (1.75, "np64")):
                out.append(Inst(cls, [float(th)], 0, bindings(nq)[-1] if pt == "int" else None, "ctor:" + pt))
        elif npar == 0:
            nq = 2 if cls == "ISwapGate" else 1
            for b in bindings(nq) + bindings(nq)[1:]:
                out.append(Inst(cls, [], 0, b, rng.choice(["ctor", "on"])))
        else:
            raise ValueError("no generator for class %s" % cls)
    return out


# ----------------------------------------------------------------------------- references (independent of the model)
PX = np.array([[0, 1], [1, 0]], dtype=complex)
PY = np.array([[0, -1j], [1j, 0]], dtype=complex)
PZ = np.array([[1, 0], [0, -1]], dtype=complex)
GEN = {"RxGate": PX, "RyGate": PY, "RzGate": PZ, "RxxGate": np.kron(PX, PX), "RyyGate": np.kron(PY, PY),
       "RzzGate": np.kron(PZ, PZ)}


def reference(cls, params, n):
    """the mathematical definition of the named gate (closed form with libm cos/sin); None = no reference"""
    h = 1 / math.sqrt(2)
    if cls in GEN:
        th = params[0]
        P = GEN[cls]
        return math.cos(th / 2) * np.eye(len(P)) - 1j * math.sin(th / 2) * P
    if cls == "RotationGate":
        v = np.asarray(params, dtype=float)
        t = math.sqrt(float(v @ v))
        if t == 0:
            return np.eye(2, dtype=complex)
        nv = v / t
        return math.cos(t / 2) * np.eye(2) - 1j * math.sin(t / 2) * (nv[0] * PX + nv[1] * PY + nv[2] * PZ)
    if cls == "PhaseFactorGate":
        return complex(math.cos(params[0]), math.sin(params[0])) * np.eye(2 ** n)
    return {"IdentityGate": np.eye(2, dtype=complex), "PauliXGate": PX, "PauliYGate": PY, "PauliZGate": PZ,
            "HadamardGate": h * (PX + PZ), "SxGate": h * (np.eye(2) - 1j * PX),
            "SGate": np.diag([1, 1j]), "SAdjGate": np.diag([1, -1j]),
            "TGate": np.diag([1, complex(h, h)]), "TAdjGate": np.diag([1, complex(h, -h)]),
            "ISwapGate": 0.5 * (np.eye(4) + np.kron(PZ, PZ)) + 0.5j * (np.kron(PX, PX) + np.kron(PY, PY))}.get(cls)


def expm_reference(cls, params):
    """scipy.linalg.expm of the generator, moderate angles only (expm loses accuracy for huge arguments)"""
    from scipy.linalg import expm
    if cls in GEN and abs(params[0]) <= 60:
        return expm(-0.5j * params[0] * GEN[cls])
    if cls == "RotationGate" and max(abs(x) for x in params) <= 40:
        return expm(-0.5j * (params[0] * PX + params[1] * PY + params[2] * PZ))
    return None


def maxabs(a):
    a = np.asarray(a)
    if a.size == 0:
        return 0.0
    m = np.abs(a).max()
    return float("inf") if not np.isfinite(m) else float(m)


# ----------------------------------------------------------------------------- per-instance evaluation
class Eval:
    """runs the implementation on one instance and keeps everything the four checks need"""

    def __init__(self, qib, fields, desc, inst):
        self.inst, self.desc = inst, desc
        self.c = desc["classes"][inst.cls]
        self.err = None
        try:
            self.gate, self.qs = build_gate(qib, fields, inst.desc())
            self.U = np.asarray(self.gate.as_matrix(), dtype=complex)
            self.shape = tuple(np.shape(self.gate.as_matrix()))
            self.herm = bool(self.gate.is_hermitian())
            self.unit = bool(self.gate.is_unitary())
            self.nw = int(self.gate.num_wires)
        except Exception as e:  # noqa
            self.err = ("construct/as_matrix", repr(e))
            return
        self.atoms = eval_atoms(self.c["atoms"], inst.params)
        self.g = guard_value(self.c, self.atoms)

    def coq_cls(self):
        return "c" + self.inst.cls

    def exact(self):
        return not self.c["atoms"]

    def mat_case(self):
        if self.exact():
            return "CMatZ %s %s %s" % (self.coq_cls(), ct.nat(self.inst.n), ct.zimat(self.U))
        return "CMatF %s %s %s %s %s" % (self.coq_cls(), ct.b(self.g), ct.nat(self.inst.n),
                                         ct.lst([ct.fi(a) for a in self.atoms]), ct.fimat(self.U))

    def flags_case(self):
        rows = self.shape[0] if len(self.shape) == 2 and self.shape[0] == self.shape[1] else 2 ** 20 - 1
        return "CFlags %s %s %s %s %s" % (self.coq_cls(), ct.nat(self.inst.n), ct.b(self.herm), ct.nat(self.nw), ct.nat(rows))


def nontrivial(inst):
    """non-trivial = parametrised gate at a parameter that is not 0 / a bound or constant gate counted once per class+binding"""
    return any(p != 0 for p in inst.params) or not inst.params


def setup(ctx, pid):
    """library, translator, property file; returns the python description (or None if the translator refused)"""
    import gates as gen_gates
    ctx.trusted.append(TRUSTED % pid)
    ctx.lib(LIB)
    desc = None
    try:
        desc = gen_gates.extract()
    except Exception:
        pass
    ok = ctx.translate("GenGates", gen_gates.generate)
    if ok:
        ctx.props()
    else:
        ctx.oblige("props:" + pid, "theorem", False, "not compiled: translator failed")
    return desc


def run_composite(ctx, pid):
    if os.environ.get("VERIF_ELEM_ONLY"):      # development aid: elementary part alone
        return
    try:
        from checks import gates_composite
    except ImportError:
        gates_composite = None
    if gates_composite:
        gates_composite.run(ctx, pid)
    if pid in ("C01", "C16"):
        # Pauli strings / weighted strings / Pauli operators: "whenever an operator claims to be
        # unitary (Hermitian), its matrix is" (theorems in coq/props/C01p.v, C16p.v)
        from checks import pauli_flags
        pauli_flags.run(ctx, pid)


def replay_composite(ctx, pid, data):
    """True iff the replay file belongs to the composite part (which then handled it)"""
    inp = data.get("input")
    if not (isinstance(inp, dict) and inp.get("comp")):
        return False
    try:
        from checks import gates_composite
    except ImportError:
        return False
    return bool(gates_composite.replay(ctx, pid, data))


def fallback_instances(ctx):
    """if the translator refuses the source there is no description to drive the generator:
    the oracle sweep still runs on a fixed description of the constructors"""
    classes = {}
    for cls in ["IdentityGate", "PauliXGate", "PauliYGate", "PauliZGate", "HadamardGate", "SxGate", "SGate", "SAdjGate",
                "TGate", "TAdjGate", "ISwapGate"]:
        classes[cls] = {"params": [], "atoms": [], "guard": None}
    for cls in ["RxGate", "RyGate", "RzGate", "RxxGate", "RyyGate", "RzzGate", "PhaseFactorGate"]:
        classes[cls] = {"params": ["theta"], "atoms": [], "guard": None}
    classes["RotationGate"] = {"params": ["v0", "v1", "v2"], "atoms": [], "guard": None}
    return {"classes": classes, "attrs": [], "islist": []}


def sweep(ctx, pid, oracle):
    """common driver: generate instances, run the implementation, collect cases + oracle verdicts"""
    import qib
    desc = setup(ctx, pid)
    have_model = desc is not None
    if desc is None:
        desc = fallback_instances(ctx)
    fields = make_fields(qib)
    insts = instances(ctx, desc)
    if any(c == "RotationGate" for c in desc["classes"]):
        insts.append(Inst("RotationGate", OVERFLOW_VEC, 0, None, "ctor"))
    cases = []
    for k, inst in enumerate(insts):
        ctx.count("class=" + inst.cls)
        ctx.count("bound" if inst.binding else "unbound")
        ev = Eval(qib, fields, desc, inst) if have_model else EvalNoModel(qib, fields, desc, inst)
        if ev.err:
            ctx.fail("exception:%s:%s" % (inst.cls, ev.err[0]), inst.desc(), "a gate", ev.err[1])
            continue
        # C16 is a statement about the gates that CLAIM to be Hermitian: only those count as non-trivial there
        if nontrivial(inst) and (pid != "C16" or ev.herm):
            ctx.nontriv((inst.cls, tuple(inst.params), inst.n, bool(inst.binding)))
        if k % 131 == 7:
            ctx.sample(inst.desc(), cap=3)         # leave room for composite / circuit / Pauli samples
        oracle(ctx, qib, fields, ev, cases if have_model else None)
    if have_model and cases:
        dis = ctx.cases("gates", HEADER, cases)
        for i, d in dis[:5]:
            ctx.log("model/impl disagree on", d)
    return desc


class EvalNoModel(Eval):
    def __init__(self, qib, fields, desc, inst):
        self.inst, self.desc, self.c, self.err = inst, desc, desc["classes"][inst.cls], None
        try:
            self.gate, self.qs = build_gate(qib, fields, inst.desc())
            self.U = np.asarray(self.gate.as_matrix(), dtype=complex)
            self.shape = tuple(np.shape(self.gate.as_matrix()))
            self.herm = bool(self.gate.is_hermitian())
            self.unit = bool(self.gate.is_unitary())
            self.nw = int(self.gate.num_wires)
        except Exception as e:  # noqa
            self.err = ("construct/as_matrix", repr(e))


# ----------------------------------------------------------------------------- C01
def is_overflow(inst):
    return inst.cls == "RotationGate" and not np.isfinite(np.linalg.norm(np.asarray(inst.params, dtype=float)))


def oracle_c01(ctx, qib, fields, ev, cases):
    inst = ev.inst
    U = ev.U
    dim_ok = ev.shape == (2 ** ev.nw, 2 ** ev.nw)
    if not dim_ok:
        ctx.fail("as_matrix:shape-not-2^num_wires:" + inst.cls, inst.desc(), (2 ** ev.nw, 2 ** ev.nw), ev.shape)
    elif is_overflow(inst):
        if not (maxabs(U @ U.conj().T - np.eye(len(U))) <= ORACLE_TOL):
            ctx.fail("as_matrix:nan:RotationGate:norm-overflow", inst.desc(), "unitary", "NaN entries")
        return
    else:
        dev = max(maxabs(U @ U.conj().T - np.eye(len(U))), maxabs(U.conj().T @ U - np.eye(len(U))))
        if not dev <= ORACLE_TOL:
            ctx.fail("as_matrix:not-unitary:" + inst.cls, inst.desc(), "||U U^dag - 1|| <= 1e-9", dev)
    if not ev.unit:
        ctx.fail("is_unitary:false:" + inst.cls, inst.desc(), True, False)
    if cases is not None and not is_overflow(inst):
        cases.append((ev.mat_case(), dict(inst.desc(), op="as_matrix")))
        cases.append((ev.flags_case(), dict(inst.desc(), op="flags")))


def second_opinion(ctx, modules):
    """thorough tier: coqchk -o on the compiled property modules (and everything they depend on)"""
    if not ctx.thorough:
        return
    for m in modules:
        if os.path.exists(os.path.join(ctx.build, m + ".vo")):
            ctx.coqchk("Run." + m)


def link_theorems(ctx):
    """coq/props/C01t.v: the composite induction (C01c/C03c/C16c, abstract leaves) instantiated with the elementary
    generated templates at all real parameters, so that 'any gate tree over the elementary classes is unitary (its
    inverse() is the adjoint, its Hermiticity flag is sound)' is one theorem.  The leaf hypotheses need the elementary
    theorems of C03 and C16 as well; those two property files are compiled here as support (their theorems are the
    obligations of ./check C03 / C16, not counted again)."""
    from vlib.core import COQ
    if os.environ.get("VERIF_ELEM_ONLY"):
        return
    if not (os.path.exists(os.path.join(ctx.build, "Prop_C01.vo")) and os.path.exists(os.path.join(ctx.build, "GenGates.vo"))):
        ctx.oblige("C01t:link-theorems", "theorem", False, "not compiled: Prop_C01 / GenGates missing")
        return
    ctx.lib(["Gates/CompProofs", "Gates/ElemReal"])
    from concurrent.futures import ThreadPoolExecutor
    paths = [ctx.write("Prop_%s.v" % base, open(os.path.join(COQ, "props", base + ".v")).read()) for base in ("C03", "C16")]
    with ThreadPoolExecutor(2) as ex:
        res = list(ex.map(ctx.coqc, paths))
    bad = [base for base, (ok, out) in zip(("C03", "C16"), res) if not ok]
    src = os.path.join(COQ, "props", "C01t.v")
    txt = open(src).read()
    import re
    forb = re.findall(r"\b(Admitted|admit|Axiom|Parameter|Conjecture|Unset Guard|bypass_check|type-in-type)\b", txt)
    ctx.oblige("no-forbidden-constructs:C01t.v", "gate", not forb, "found: %s" % forb)
    if bad:
        # a defect of inverse() / is_hermitian() of an elementary class is reported by ./check C03 / C16 with a failing
        # input; it does not violate C01, so the missing link theorem is recorded but does not fail this check
        ctx.oblige("C01t:link-theorems", "theorem", False,
                   "not compiled: the elementary theorems of %s do not compile against the current source "
                   "(reported by ./check %s); C01's own theorems are unaffected" % (", ".join(bad), " / ".join(bad)))
        ctx.obligations[-1]["explained"] = True
        return
    ctx.props(src)


def run(ctx):
    ctx.rules.append("every elementary class x angle grid (0, multiples of pi/4 and pi, 1e-300..1e300, subnormal, negative, random) "
                     "x rotation vectors (zero, signed zero, subnormal, underflowing, near 1e-3, huge up to 1e150, random) x "
                     "PhaseFactorGate on 0..3 (thorough 0..5) wires x unbound / bound to qubits of two fields (ctor, on(), tuple, array); "
                     "as_matrix() vs the generated template in binary64 pairs on harness-computed atom values (2^-40), constant gates exactly; "
                     "oracle ||U U^dag - 1||, ||U^dag U - 1|| <= 1e-9 and shape = 2^num_wires on every instance. "
                     "non-trivial = constant gate, or parametrised gate with a non-zero parameter")
    sweep(ctx, "C01", oracle_c01)
    run_composite(ctx, "C01")
    link_theorems(ctx)
    second_opinion(ctx, ["Prop_C01t", "Prop_C01c", "Prop_C01p"])      # Prop_C01t covers Prop_C01 / C03 / C16


def replay(ctx, data):
    import qib
    fields = make_fields(qib)
    if replay_composite(ctx, "C01", data):
        return
    from checks import pauli_flags
    if pauli_flags.replay_flag(ctx, "C01", data):
        return
    inp = data["input"]
    try:
        gate, _ = build_gate(qib, fields, inp)
        U = np.asarray(gate.as_matrix(), dtype=complex)
        nw = gate.num_wires
        bad = U.shape != (2 ** nw, 2 ** nw) or not (maxabs(U @ U.conj().T - np.eye(len(U))) <= ORACLE_TOL) \
            or not gate.is_unitary()
    except Exception:
        bad = True
    if bad:
        ctx.fail(data["sig"], inp, data.get("expected"), "still fails")
