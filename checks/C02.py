"""C02 - gate matrices equal their mathematical definitions (elementary gate classes).
Shared machinery: checks/C01.py.  Composite gates: checks/gates_composite.py."""
import numpy as np
from checks import C01 as G


def oracle_c02(ctx, qib, fields, ev, cases):
    inst = ev.inst
    if G.is_overflow(inst):
        return          # reported under C01 (known finding); no finite definition to compare with in binary64
    U = ev.U
    ref = G.reference(inst.cls, inst.params, inst.n)
    if ref is None:
        ctx.fail("reference:missing:" + inst.cls, inst.desc(), "a definition", None)
    elif ref.shape != U.shape or not (G.maxabs(U - ref) <= G.ORACLE_TOL):
        ctx.fail("as_matrix:differs-from-definition:" + inst.cls, inst.desc(),
                 "cos(theta/2) 1 - i sin(theta/2) P / named constant", G.maxabs(U - ref) if ref.shape == U.shape else U.shape)
    ex = G.expm_reference(inst.cls, inst.params)
    if ex is not None:
        ctx.count("expm_compared")
        if not (G.maxabs(U - ex) <= G.ORACLE_TOL):
            ctx.fail("as_matrix:differs-from-expm:" + inst.cls, inst.desc(), "scipy.linalg.expm(-i theta P / 2)", G.maxabs(U - ex))
    if cases is not None:
        cases.append((ev.mat_case(), dict(inst.desc(), op="as_matrix")))


def run(ctx):
    ctx.rules.append("instances as in C01 (all elementary classes x angle / vector grids x bindings); as_matrix() vs the generated "
                     "template in binary64 pairs on harness-computed atom values (2^-40), constant gates exactly; oracle on the "
                     "implementation: closed-form definition with libm cos/sin and hand-written Pauli matrices (all angles) and "
                     "scipy.linalg.expm(-i theta P/2) for |theta| <= 60, both to 1e-9. non-trivial = constant gate or non-zero parameter")
    G.sweep(ctx, "C02", oracle_c02)
    G.run_composite(ctx, "C02")
    G.second_opinion(ctx, ["Prop_C02", "Prop_C02c"])


def replay(ctx, data):
    import qib
    if G.replay_composite(ctx, "C02", data):
        return
    inp = data["input"]
    try:
        gate, _ = G.build_gate(qib, G.make_fields(qib), inp)
        U = np.asarray(gate.as_matrix(), dtype=complex)
        ref = G.reference(inp["cls"], inp["params"], inp["n"])
        bad = ref is None or ref.shape != U.shape or not (G.maxabs(U - ref) <= G.ORACLE_TOL)
        ex = G.expm_reference(inp["cls"], inp["params"])
        if ex is not None:
            bad = bad or not (G.maxabs(U - ex) <= G.ORACLE_TOL)
    except Exception:
        bad = True
    if bad:
        ctx.fail(data["sig"], inp, data.get("expected"), "still fails")
