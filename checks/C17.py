"""C17 - experiment lifecycle is monotone; transport retries are bounded.

Harness: the server and the network are a scripted list of transport outcomes served by fake
requests.put / requests.post (patched inside this process, like tests/test_backend.py patches the
layer above); time.time/time.sleep (used by sched) and asyncio.sleep are replaced in the namespace of
qib.backend.wmi.wmi_experiment by a virtual clock.  Client scripts are lists of events; the coroutine
wait_for_results is either run on a real asyncio event loop (Await) or driven by hand from await point
to await point (AwaitBegin / AwaitResume) with other client events in between.
Compared exactly with the Coq model (instantiated with the tables regenerated from /repo): outcome of
every event, status after every event, number of requests so far, full request log (verb + job id),
number of waits, stored results, job id, unconsumed outcomes.
Independent oracles (no model involved) check the property text directly on the traces."""
import itertools, os, sys, io, contextlib
import asyncio as real_asyncio
from vlib import coqterm as ct

sys.path.insert(0, os.path.join(os.path.dirname(os.path.dirname(os.path.abspath(__file__))), "gen"))

HEADER_GEN = ("From Qib Require Import Backend.LifeCheck.\nFrom Run Require Import GenLife.\n"
              "Definition bad := bad_cases_with gen_tables.\n")
# used only when the translator refuses the source: compare against the documented tables instead, so that the
# deviation can still be turned into a concrete failing input
HEADER_DOC = ("From Qib Require Import Backend.LifeCheck.\nDefinition bad := bad_cases_with doc_tables.\n")
HEADER_DOC_FJ = ("From Qib Require Import Backend.LifeCheck.\nDefinition bad := bad_cases_with doc_tables_fj.\n")
HEADER = HEADER_GEN
# True when from_json itself records the results of a 'finished' reply (the code with
# proposed_fixes/C17-results-of-finished-submission.diff): then "DONE without results after a submission answered
# 'finished'" is no longer the known finding but a regression
REPAIRED = [False]


def detect_repaired():
    import inspect
    from qib.backend.wmi import WMIExperiment
    try:
        REPAIRED[0] = "_results" in inspect.getsource(WMIExperiment.from_json)
    except Exception:
        REPAIRED[0] = False
    return REPAIRED[0]

# documented mapping, written from the property text / class documentation (oracle side)
DOC = {"pending": "QUEUED", "active": "RUNNING", "finished": "DONE", "cancelled": "CANCELLED", "offline": "ERROR"}
TERMINAL = ("DONE", "ERROR", "CANCELLED")
RANK = {"INITIALIZING": 0, "QUEUED": 1, "RUNNING": 1, "DONE": 2, "ERROR": 2, "CANCELLED": 2}
KNOWN_SIG = "results:None-while-DONE-after-submission-answered-finished"
UNKNOWN = ["weird", "", "FINISHED", "Pending", "done", "error", "finished "]


class ScriptExhausted(Exception):
    """the scripted history has no further outcome (StillPolling)"""


# ------------------------------------------------------------------------------------------ fakes

class Server:
    """outs: list of ('ok', status, job, payload) | ('timeout', variant) | ('http', code) | ('req',) | ('conn',)
    | ('badjson',) | ('missing', field, status, job, payload)   (the last two: malformed replies, oracle-only)"""

    def __init__(self, outs):
        self.outs, self.ptr, self.log, self.served, self.malformed = list(outs), 0, [], [], []

    def left(self):
        return len(self.outs) - self.ptr

    def call(self, verb):
        import requests

        def fn(url, headers=None, json=None, timeout=None, **kw):
            if self.ptr >= len(self.outs):
                raise ScriptExhausted()
            o = self.outs[self.ptr]
            self.ptr += 1
            self.log.append((verb, url, json))
            k = o[0]
            if k == "timeout":
                raise {0: requests.exceptions.Timeout, 1: requests.exceptions.ReadTimeout,
                       2: requests.exceptions.ConnectTimeout}[o[1] % 3]("scripted timeout")
            if k == "conn":
                raise requests.exceptions.ConnectionError("scripted connection error")
            r = requests.Response()
            r.url = url
            if k == "http":
                r.status_code = o[1]
                r.reason = "scripted"
                return r
            if k == "req":
                r.status_code = 200

                def bad():
                    raise requests.exceptions.TooManyRedirects("scripted request error")
                r.raise_for_status = bad
                return r
            r.status_code = 200
            if k == "badjson":
                def nojson():
                    raise requests.exceptions.JSONDecodeError("scripted non-JSON body", "<html>", 0)
                r.json = nojson
                self.malformed.append(o)
                return r
            if k == "missing":
                _, field, status, job, payload = o
                body = make_body(status, job, payload)
                if field in body:
                    body.pop(field)
                    r.json = lambda: dict(body)
                    self.malformed.append(o)
                    return r
                o = ("ok", status, job, payload)     # the field is not part of this reply anyway: well-formed
            _, status, job, payload = o
            body = make_body(status, job, payload)
            r.json = lambda: dict(body)
            self.served.append(o)
            return r
        return fn


def counts_for(payload):
    """the server's count dictionary of a finished job (several keys, a zero count, a large count)"""
    return {"0x0": payload, "0x1": 0, "0x3": 7 * payload + 1}


def make_body(status, job, payload):
    body = {"job_id": "J%d" % job, "execution_datetime": "2024-01-01T00:00:00", "status": status}
    if status == "finished":
        body["runtime"] = payload
        body["counts"] = [counts_for(payload)]
    return body


class Clock:
    def __init__(self):
        self.now, self.sleeps = 0.0, []

    def time(self):
        return self.now

    def sleep(self, d):
        if d > 0:
            self.sleeps.append(d)
            self.now += d


class _Yield:
    def __init__(self, d):
        self.d = d

    def __await__(self):
        yield self.d


class FakeAsyncio:
    def __init__(self, clock):
        self.clock, self.manual = clock, False

    def sleep(self, d):
        self.clock.sleep(d)
        if self.manual:
            return _Yield(d)
        return real_asyncio.sleep(0)


class Patched:
    """patch requests.put/post and the time/asyncio names of the wmi_experiment module"""

    def __init__(self, server, clock):
        self.server, self.clock = server, clock
        self.fa = FakeAsyncio(clock)

    def __enter__(self):
        import requests
        import qib.backend.wmi.wmi_experiment as we
        self.saved = (requests.put, requests.post, we.time, we.asyncio)
        requests.put, requests.post = self.server.call("put"), self.server.call("post")
        we.time, we.asyncio = self.clock, self.fa
        return self

    def __exit__(self, *a):
        import requests
        import qib.backend.wmi.wmi_experiment as we
        requests.put, requests.post, we.time, we.asyncio = self.saved
        return False


def jobnum(j):
    if j is None:
        return None
    return int(j[1:])


PROCS = {}
MAXR = [5]


def setup_procs():
    import qib
    from qib.util import const
    MAXR[0] = const.NW_MAX_RETRIES
    import qib.backend.wmi.wmi_qsim_processor as mq
    import qib.backend.wmi.wmi_qc_processor as mc
    field = qib.field.Field(qib.field.ParticleType.QUBIT, qib.lattice.IntegerLattice((2,)))
    q0 = qib.field.Qubit(field, 0)
    circ = qib.Circuit([qib.PauliXGate(q0), qib.MeasureInstruction([q0])])
    PROCS["qsim"] = (qib.backend.wmi.WMIQSimProcessor("TOKEN"), mq, circ)
    PROCS["qc"] = (qib.backend.wmi.WMIQCProcessor("TOKEN"), mc, circ)


def classify(ex):
    import requests
    if isinstance(ex, ScriptExhausted):
        return ("ODry",)
    if isinstance(ex, ValueError) and "submitted first" in str(ex):
        return ("ORefused",)
    if isinstance(ex, RuntimeError):
        m = str(ex)
        if "could not be submitted" in m:
            return ("OSubmitRaised",)
        if "HTTP error" in m:
            return ("ONet", "XHttp")
        if "Request error" in m:
            return ("ONet", "XReq")
        if "Maximum retries" in m:
            return ("ONet", "XMax")
    if isinstance(ex, requests.exceptions.ConnectionError) and not isinstance(ex, requests.exceptions.Timeout):
        return ("ONet", "XConn")
    if isinstance(ex, AttributeError) and "NoneType" in str(ex) and "json" in str(ex):
        return ("OCrash",)
    if isinstance(ex, KeyError) and ex.args and ex.args[0] in ("job_id", "execution_datetime", "status", "runtime", "counts"):
        return ("OMalformed", ex.args[0])
    if isinstance(ex, requests.exceptions.JSONDecodeError):
        return ("OMalformed", "json")
    return ("OOther", type(ex).__name__ + ": " + str(ex)[:80])


BAD_COUNTS = -777     # identifier of a results object whose counts are not the ones the server sent with that runtime


def res_id(r):
    """results object -> the payload identifier the server sent (runtime), checked against the counts"""
    if r is None:
        return None
    rt = r.runtime
    try:
        same = (r.get_counts() == counts_for(rt))
    except Exception:
        same = False
    return rt if same else BAD_COUNTS


def ev_kind(e):
    return e.split("#")[0]


def run_impl(procname, evs, outs, want_exp=False):
    """run a client script against a scripted history on the implementation.
    Events: Submit | Query | Results | Await | AwaitBegin[#k] | AwaitResume[#k]; '#k' names a further, concurrently
    pending wait_for_results coroutine of the same experiment (oracle-only: the model has one)."""
    from qib.backend.wmi import WMIExperiment, WMIOptions
    proc, mod, circ = PROCS[procname]
    server, clock = Server(outs), Clock()
    trace, info = [], []
    with Patched(server, clock) as P, contextlib.redirect_stdout(io.StringIO()):
        opts = WMIOptions(shots=16)
        exp = WMIExperiment("C17", circ, opts, proc.configuration(), proc.credentials)
        coros = {}

        for e in evs:
            served0, log0, mal0 = len(server.served), len(server.log), len(server.malformed)
            kind, _, tag = e.partition("#")
            try:
                if kind == "Submit":
                    if exp.status.value != "INITIALIZING":
                        o = ("OInvalid",)
                    else:
                        saved = mod.WMIExperiment
                        mod.WMIExperiment = lambda *a, **k: exp
                        try:
                            r = proc.submit_experiment("C17", circ, opts)
                        finally:
                            mod.WMIExperiment = saved
                        assert r is exp
                        o = ("OSubmitted", exp.status.value)
                elif kind == "Query":
                    o = ("OStatus", exp.query_status().value)
                elif kind == "Results":
                    o = ("OResults", res_id(exp.results()))
                elif kind == "Await":
                    if "" in coros:
                        o = ("OInvalid",)
                    else:
                        P.fa.manual = False
                        loop = real_asyncio.new_event_loop()
                        try:
                            o = ("OResults", res_id(loop.run_until_complete(exp.wait_for_results())))
                        finally:
                            loop.close()
                elif kind in ("AwaitBegin", "AwaitResume"):
                    if (kind == "AwaitBegin") != (tag not in coros):
                        o = ("OInvalid",)
                    else:
                        P.fa.manual = True
                        if tag not in coros:
                            coros[tag] = exp.wait_for_results()
                        try:
                            coros[tag].send(None)
                            o = ("OPending",)
                        except StopIteration as si:
                            del coros[tag]
                            o = ("OResults", res_id(si.value))
                        except BaseException:
                            del coros[tag]
                            raise
                else:
                    raise AssertionError(e)
            except AssertionError:
                raise
            except Exception as ex:
                o = classify(ex)
            trace.append((o, exp.status.value, len(server.log)))
            info.append({"served": server.served[served0:], "attempts": len(server.log) - log0,
                         "malformed": server.malformed[mal0:]})
        for c in coros.values():
            c.close()
        final = {"log": [(v, (jobnum(b.get("job_id")) if v == "post" else None), u, b) for v, u, b in server.log],
                 "sleeps": list(clock.sleeps), "results": res_id(exp._results), "job": jobnum(exp._job_id),
                 "left": server.left(), "freq": proc.configuration().query_frequency,
                 "url": proc.credentials.url, "served_all": list(server.served)}
    if want_exp:
        return trace, info, final, exp
    return trace, info, final


# ------------------------------------------------------------------------------------------ Coq terms

STR = {"pending": "c_pending", "active": "c_active", "finished": "c_finished", "cancelled": "c_cancelled",
       "offline": "c_offline"}


def t_str(s):
    return STR.get(s) or ct.lst([ct.z(ord(c)) for c in s])


def t_out(o):
    k = o[0]
    if k == "ok":
        return "(TOk (Build_reply %s %s %s))" % (t_str(o[1]), ct.z(o[2]), ct.z(o[3] if o[1] == "finished" else 0))
    return {"timeout": "TTimeout", "http": "THttpErr", "req": "TReqErr", "conn": "TConnErr"}[k]


def t_outcome(o):
    k = o[0]
    if k in ("OStatus", "OSubmitted"):
        return "(%s %s)" % (k, o[1])
    if k == "OResults":
        return "(OResults %s)" % ct.opt(None if o[1] is None else ct.z(o[1]))
    if k == "ONet":
        return "(ONet %s)" % o[1]
    if k == "OOther":
        return "OInvalid"      # never produced by the model for generated scripts: forces a disagreement
    return k


def t_life(evs, outs, trace, final):
    tr = ct.lst(["(%s, %s, %s)" % (t_outcome(o), st, ct.nat(n)) for o, st, n in trace])
    log = ct.lst(["RPut" if v == "put" else "(RPost %s)" % ct.opt(None if j is None else ct.z(j))
                  for v, j, _, _ in final["log"]])
    return "CLife %s %s %s %s %s %s %s %s" % (
        ct.lst(evs), ct.lst([t_out(o) for o in outs]), tr, log, ct.nat(len(final["sleeps"])),
        ct.opt(None if final["results"] is None else ct.z(final["results"])),
        ct.opt(None if final["job"] is None else ct.z(final["job"])), ct.nat(final["left"]))


# ------------------------------------------------------------------------------------------ oracles

def oracle_life(ctx, desc, evs, outs, trace, info, final):
    """the property text, checked directly on the implementation's trace"""
    fails = []

    def bad(sig, expected, observed):
        fails.append((sig, expected, observed))

    prev_status, prev_log = "INITIALIZING", 0
    last_served, last_from_submit = None, False
    tainted = False      # a malformed reply (outside the property's quantifier) has been processed
    for i, (e, (o, st, nlog), inf) in enumerate(zip(evs, trace, info)):
        kind = ev_kind(e)
        if o[0] == "OOther":
            bad("lifecycle:unexpected-exception", "a documented outcome", o[1])
        for s in inf["served"]:
            last_served, last_from_submit = s, (kind == "Submit")
        mal = inf.get("malformed") or []
        if mal:
            # robustness (not part of the property's quantifier): a reply that is not JSON / lacks a field must surface as an
            # exception of this very call, never be swallowed; what the status is afterwards is not prescribed
            tainted = True
            results_only = all(m[0] == "missing" and m[1] in ("runtime", "counts") for m in mal)
            if o[0] != "OMalformed" and not (results_only and kind == "Submit" and not REPAIRED[0]):
                # (a submission that does not read the results of its reply need not notice that they are missing)
                bad("malformed:reply-swallowed", "KeyError / JSONDecodeError propagates", repr(o))
            if st == "DONE" and final["results"] is None:
                ctx.count("robustness_DONE_without_results_after_finished_reply_without_results")
        # mapping of the last processed reply
        elif inf["served"]:
            want = DOC.get(last_served[1], "ERROR")
            if st != want:
                bad("mapping:status-not-documented", "%s -> %s" % (last_served[1], want), st)
        elif st != prev_status:
            bad("lifecycle:status-changed-without-reply", prev_status, st)
        # monotone
        if RANK[st] < RANK[prev_status]:
            bad("lifecycle:status-moved-backwards", prev_status, st)
        # terminal absorbing and silent
        if prev_status in TERMINAL:
            if st != prev_status:
                bad("terminal:status-left", prev_status, st)
            if nlog != prev_log:
                bad("terminal:request-after-terminal", "no request", "%d request(s) by %s" % (nlog - prev_log, e))
        # before submission
        if prev_status == "INITIALIZING" and kind != "Submit" and o[0] != "OInvalid":
            if o != ("ORefused",) or nlog != prev_log:
                bad("presubmit:not-refused", "ValueError, no request", repr(o))
        # results
        if o[0] == "OResults":
            if st not in TERMINAL:
                bad("results:returned-in-non-terminal-status", "terminal", st)
            if st != "DONE" and o[1] is not None:
                bad("results:payload-although-not-DONE", None, o[1])
            if st == "DONE" and not tainted:
                fin = last_served if (last_served and last_served[1] == "finished") else None
                if o[1] is None:
                    if last_from_submit and not REPAIRED[0]:
                        bad(KNOWN_SIG, "the server's results", None)
                    elif last_from_submit:
                        bad("results:None-while-DONE-after-finished-submission", "the server's results", None)
                    else:
                        bad("results:None-while-DONE", "the server's results", None)
                elif o[1] == BAD_COUNTS:
                    bad("results:counts-are-not-the-servers", fin and counts_for(fin[3]), "different counts")
                elif fin is None or o[1] != fin[3]:
                    bad("results:not-the-servers-payload", fin and fin[3], o[1])
        # an event that issues at most one logical request makes at most 1 + max-retries attempts
        if kind in ("Submit", "Query", "AwaitBegin", "AwaitResume") and inf["attempts"] > 1 + MAXR[0]:
            bad("retry:more-than-1+max-attempts-in-one-request", "<= %d" % (1 + MAXR[0]), inf["attempts"])
        prev_status, prev_log = st, nlog
    for d in final["sleeps"]:
        if abs(d - final["freq"]) > 1e-9:
            bad("poll:wait-is-not-query_frequency", final["freq"], d)
    for v, j, url, body in final["log"]:
        if url != final["url"] + "/qobj":
            bad("request:wrong-url", final["url"] + "/qobj", url)
        if v == "put" and not (isinstance(body, dict) and "qobj" in body):
            bad("request:submission-without-qobj", "{'qobj': ...}", repr(body)[:60])
        if v == "post" and j is None:
            bad("request:query-without-job-id", "job id", repr(body)[:60])
    for sig, ex, ob in fails:
        ctx.fail(sig, desc, ex, ob)
    return fails


def snapshot(exp):
    return (exp.status.value, res_id(exp._results), exp._job_id, exp.error)


def run_retry(verb, outs):
    import requests
    from qib.util import networking
    server = Server(outs)
    with Patched(server, Clock()), contextlib.redirect_stdout(io.StringIO()):
        fn = networking.http_put if verb == "put" else networking.http_post
        try:
            r = fn("http://x/qobj", {"h": 1}, {"b": 1}, "T")
            if r is None:
                res = ("TFallOff",)
            else:
                j = r.json()
                res = ("TRet", j["status"], jobnum(j["job_id"]), j.get("runtime", 0))
        except ScriptExhausted:
            res = ("TDry",)
        except Exception as ex:
            c = classify(ex)
            res = ("TRaise", c[1]) if c[0] == "ONet" else ("Other", c)
    return res, len(server.log), server.left()


def oracle_retry(ctx, desc, outs, res, attempts, left):
    from qib.util import const
    mx = const.NW_MAX_RETRIES
    used = outs[:attempts]

    def bad(sig, expected, observed):
        ctx.fail(sig, desc, expected, observed)

    if attempts > 1 + mx:
        bad("retry:more-than-1+max-attempts", "<= %d" % (1 + mx), attempts)
    if res[0] == "TFallOff":
        bad("retry:returned-None", "a response or an exception", None)
    if res[0] == "Other":
        bad("retry:unexpected-exception", "documented exception", repr(res[1]))
    if any(o[0] != "timeout" for o in used[:-1]):
        bad("retry:retried-after-non-timeout", "retry only on timeouts", [o[0] for o in used])
    first_ok = next((o for o in outs if o[0] != "timeout"), None)
    nto = next((i for i, o in enumerate(outs) if o[0] != "timeout"), len(outs))
    if nto <= mx and first_ok is not None:
        # the deciding outcome is within reach: it must decide
        if first_ok[0] == "ok":
            if res != ("TRet", first_ok[1], first_ok[2], first_ok[3] if first_ok[1] == "finished" else 0):
                bad("retry:first-success-not-returned", first_ok, res)
        else:
            want = {"http": "XHttp", "req": "XReq", "conn": "XConn"}[first_ok[0]]
            if res != ("TRaise", want):
                bad("retry:failure-did-not-raise", want, res)
        if attempts != nto + 1:
            bad("retry:wrong-number-of-attempts", nto + 1, attempts)
    elif nto > mx:
        if res != ("TRaise", "XMax") or attempts != mx + 1:
            bad("retry:timeouts-beyond-max-did-not-raise", ("XMax", mx + 1), (res, attempts))
    else:
        if res != ("TDry",):
            bad("retry:script-exhausted-but-terminated", "still retrying", res)


def t_retry(outs, res, attempts, left):
    if res[0] == "TRet":
        r = "(TRet (Build_reply %s %s %s))" % (t_str(res[1]), ct.z(res[2]), ct.z(res[3]))
    elif res[0] == "TRaise":
        r = "(TRaise %s)" % res[1]
    elif res[0] == "Other":
        r = "TFallOff"     # cannot agree with the model unless the code is broken the same way; flagged by oracle
    else:
        r = res[0]
    return "CRetry %s %s %s %s" % (ct.lst([t_out(o) for o in outs]), r, ct.nat(attempts), ct.nat(left))


# ------------------------------------------------------------------------------------------ generators

KINDS = ["pending", "active", "finished", "cancelled", "offline", "unknown"]

SCRIPTS = [
    ["Submit", "Results", "Query", "Results", "Await"],
    ["Submit", "Query", "Query", "Await", "Query", "Results"],
    ["Query", "Results", "Await", "Submit", "AwaitBegin", "Query", "AwaitResume", "Results", "AwaitResume"],
    ["Submit", "AwaitBegin", "AwaitResume", "AwaitResume", "AwaitResume", "AwaitResume", "Query"],
    ["Submit", "Query", "AwaitBegin", "Results", "AwaitResume", "Await"],
    ["AwaitBegin", "Submit", "Await", "Results", "Query", "Query"],
]


def fix_script(evs):
    """make AwaitBegin/AwaitResume well-formed w.r.t. a statically unknown suspension state: the harness
    and the model both treat an inapplicable event as OInvalid, so scripts need no fixing"""
    return list(evs)


def mk_reply(kind, rng, jobs, pay):
    st = kind if kind != "unknown" else rng.choice(UNKNOWN)
    jobs[0] += 1
    pay[0] += 1
    return ("ok", st, rng.choice([jobs[0], jobs[0], 1]), 100 + pay[0])


def run(ctx):
    import backend as gen_backend
    ctx.trusted.append(
        "C17: the control skeleton of the lifecycle model (order of guard / request / from_json / result update, the two "
        "poll loops, the request log) is hand-modelled (Qib.Backend.LifeModel) and tied by exact correspondence; the status "
        "chain, is_terminal list, all guards and conditions of query_status/results/wait_for_results/_process_response and the "
        "retry loop's initial value, comparison, increment, handler class and final test are regenerated from the source. "
        "Wall-clock behaviour (sockets, timeouts, sched, the asyncio event loop) is replaced by event lists: one scripted "
        "outcome per requests.put/post call; coroutine steps between await points are atomic (Python semantics, trusted). "
        "Server replies are well-formed JSON objects with job_id, execution_datetime, status (+ runtime, counts when finished).")
    ctx.assumes.append("model: replies are well-formed; one experiment object; at most one pending wait_for_results coroutine at a "
                       "time. Oracle-only histories (no model): up to three concurrently pending coroutines of one experiment; "
                       "replies that are not JSON / lack job_id, execution_datetime, status, runtime or counts; the experiment of the "
                       "previous history is re-inspected after every history (isolation of experiment objects)")
    ctx.rules.append("histories = reply sequences over {pending, active, finished, cancelled, offline, unknown string} "
                     "(exhaustive up to length %d) x fixed client scripts, plus random scripts over Submit/Query/Results/Await/"
                     "AwaitBegin/AwaitResume against random outcome lists with timeouts, HTTP 4xx/5xx, request and connection "
                     "errors; both processors. retry: all outcome sequences up to length %d, k timeouts + each kind, random. "
                     "results objects are identified by runtime AND checked to carry the server's count dictionary (3 keys, one zero "
                     "count). non-trivial = at least one request reached the server and the script has >= 2 events"
                     % ((5, 5) if ctx.thorough else (3, 4)))
    ctx.lib(["Backend/LifeCheck", "Backend/LifeProofs"])
    global HEADER
    ok = ctx.translate("GenLife", gen_backend.generate_life)
    if ok:
        HEADER = HEADER_GEN
        ctx.props()
    else:
        HEADER = HEADER_DOC
        ctx.oblige("props:C17", "theorem", False, "not compiled: translator failed")

    ctx.log("library, translator, theorems done")
    setup_procs()
    if detect_repaired():
        ctx.notes.append("C17: from_json records the results of a 'finished' reply (repaired source): the guard of "
                         "C17_results_exactly_when_done is vacuous, 'DONE without results after a finished submission' counts as a violation")
    if not ok:
        HEADER = HEADER_DOC_FJ if REPAIRED[0] else HEADER_DOC
    rng = ctx.rng
    cases = []
    prev = []      # the previous history's experiment object and its state when that history ended

    def life(procname, evs, outs, tag, model=True):
        desc = {"kind": "life", "proc": procname, "evs": list(evs), "outs": [list(o) for o in outs]}
        try:
            trace, info, final, exp = run_impl(procname, evs, outs, want_exp=True)
        except Exception as ex:   # harness-level failure on this input
            ctx.fail("lifecycle:harness-crash", desc, "a trace", "%s: %s" % (type(ex).__name__, ex))
            return
        ctx.count(tag)
        ctx.count("events", len(evs))
        for o, st, n in trace:
            ctx.count("outcome_" + o[0])
        if model:
            cases.append((t_life(evs, outs, trace, final), desc))
        if final["log"] and len(evs) >= 2:
            ctx.nontriv(repr((evs, outs)))
        if len(evs) >= 5 and len(final["log"]) >= 3:
            ctx.sample({"proc": procname, "evs": evs, "outs": outs, "trace": [list(t) for t in trace]})
        oracle_life(ctx, desc, evs, outs, trace, info, final)
        # isolation: running this history must not have touched the experiment of the previous one (no state shared
        # between experiment objects through class attributes, caches keyed by job id, shared configuration ...)
        if prev:
            pexp, psnap, pdesc = prev[0]
            if snapshot(pexp) != psnap:
                ctx.fail("isolation:another-experiment-changed-this-one", {"kind": "pair", "first": pdesc, "second": desc},
                         psnap, snapshot(pexp))
        prev[:] = [(exp, snapshot(exp), desc)]

    # -- the known finding, always run
    life("qsim", ["Submit", "Results", "Await", "Query"], [("ok", "finished", 7, 142)], "known_finding_input")

    # -- exhaustive reply sequences x scripts
    maxlen = 5 if ctx.thorough else 3
    jobs, pay = [0], [0]
    nseq = 0
    for L in range(0, maxlen + 1):
        for seq in itertools.product(KINDS, repeat=L):
            nseq += 1
            outs = [mk_reply(k, rng, jobs, pay) for k in seq]
            for si, sc in enumerate(SCRIPTS):
                life("qsim" if (nseq + si) % 2 else "qc", sc, outs, "exhaustive_len%d" % L)
    ctx.exhaustive = {"reply_sequences_up_to_length": maxlen, "sequences": nseq, "scripts": len(SCRIPTS)}

    # -- random scripts against random histories with transport faults
    nrand = 6000 if ctx.thorough else 700
    for _ in range(nrand):
        n_ev = rng.randint(1, 9)
        evs, awaiting, submitted = [], False, False
        for _i in range(n_ev):
            r = rng.random()
            if not submitted and r < 0.55:
                evs.append("Submit")
                submitted = True     # (may fail in transport; a later Submit is then tried again below)
                continue
            if r < 0.08:
                evs.append("Submit")
                continue
            choices = ["Query", "Query", "Results"]
            if awaiting:
                choices += ["AwaitResume", "AwaitResume", "AwaitResume"]
            else:
                choices += ["Await", "AwaitBegin", "AwaitBegin"]
            e = rng.choice(choices)
            if e == "AwaitBegin":
                awaiting = True
            evs.append(e)
        outs = []
        for _i in range(rng.randint(0, 12)):
            r = rng.random()
            if r < 0.55:
                kind = rng.choice(["pending", "active", "active", "pending", "finished", "cancelled", "offline", "unknown"])
                outs.append(mk_reply(kind, rng, jobs, pay))
            elif r < 0.85:
                outs.append(("timeout", rng.randint(0, 2)))
            elif r < 0.92:
                outs.append(("http", rng.choice([400, 401, 404, 429, 500, 502, 503])))
            elif r < 0.96:
                outs.append(("req",))
            else:
                outs.append(("conn",))
        if rng.random() < 0.15:   # long timeout bursts around the retry bound
            k = rng.randint(4, 8)
            pos = rng.randint(0, len(outs))
            outs[pos:pos] = [("timeout", i) for i in range(k)]
        life(rng.choice(["qsim", "qc"]), evs, outs, "random")

    # -- oracle-only histories (outside the model): several wait_for_results coroutines of one experiment pending at the
    #    same time, resumed in any order and interleaved with the other calls
    two = ["AwaitBegin", "AwaitBegin#2", "AwaitResume", "AwaitResume#2", "AwaitResume#2", "AwaitResume", "Query", "Results",
           "AwaitBegin#3", "AwaitResume#3"]
    for _ in range(1500 if ctx.thorough else 250):
        evs = ["Submit"] if rng.random() < 0.9 else []
        for _i in range(rng.randint(2, 9)):
            evs.append(rng.choice(two))
        outs = []
        for _i in range(rng.randint(0, 9)):
            r = rng.random()
            if r < 0.75:
                kind = rng.choice(["pending", "active", "active", "pending", "finished", "cancelled", "offline", "unknown"])
                outs.append(mk_reply(kind, rng, jobs, pay))
            elif r < 0.9:
                outs.append(("timeout", rng.randint(0, 2)))
            else:
                outs.append(rng.choice([("http", 500), ("req",), ("conn",)]))
        life(rng.choice(["qsim", "qc"]), evs, outs, "concurrent_coroutines", model=False)

    # -- oracle-only robustness histories: replies that are not JSON or lack a field (the property quantifies over status
    #    replies; what must still hold: the failure surfaces as an exception of that call, statuses stay monotone, terminal
    #    statuses silent and absorbing, nothing but the server's payload is ever returned)
    MAL = [("badjson",)] + [("missing", f, st, 5, 55) for f in ("job_id", "execution_datetime", "status")
                           for st in ("pending", "finished")] \
        + [("missing", f, "finished", 6, 66) for f in ("runtime", "counts")]
    for m in MAL:
        for sc in SCRIPTS:
            for pre in ([], [("ok", "pending", 2, 0)], [("ok", "pending", 2, 0), ("ok", "active", 2, 0)]):
                life("qsim", sc, pre + [m, ("ok", "active", 3, 0), ("ok", "finished", 3, 77)], "malformed_reply", model=False)
    for _ in range(1000 if ctx.thorough else 150):
        evs = ["Submit"] + [rng.choice(["Query", "Results", "Await", "AwaitBegin", "AwaitResume"]) for _i in range(rng.randint(1, 6))]
        outs = [mk_reply(rng.choice(KINDS), rng, jobs, pay) for _i in range(rng.randint(0, 5))]
        outs.insert(rng.randint(0, len(outs)), rng.choice(MAL))
        life(rng.choice(["qsim", "qc"]), evs, outs, "malformed_reply_random", model=False)

    ctx.log("implementation ran on %d lifecycle cases" % len(cases))
    dis = ctx.cases("life", HEADER, cases, fn="bad", shard=250)
    ctx.log("model evaluated")
    for i, d in dis[:5]:
        ctx.log("model/impl disagree on", d)
        ctx.fail("lifecycle:model-disagrees", d, "trace of the Coq model", "implementation differs (see case)")

    # -- transport alone
    from qib.util import const
    mx = const.NW_MAX_RETRIES
    rcases = []
    TK = [("ok", "pending", 3, 0), ("timeout", 0), ("http", 404), ("http", 503), ("req",), ("conn",),
          ("ok", "finished", 4, 77)]

    def retry(outs, tag):
        verb = "put" if (len(outs) + len(rcases)) % 2 else "post"
        desc = {"kind": "retry", "verb": verb, "outs": [list(o) for o in outs]}
        res, attempts, left = run_retry(verb, outs)
        ctx.count(tag)
        ctx.count("retry_" + res[0])
        rcases.append((t_retry(outs, res, attempts, left), desc))
        if attempts >= 2:
            ctx.nontriv(repr(outs))
        oracle_retry(ctx, desc, outs, res, attempts, left)

    rl = 5 if ctx.thorough else 4
    for L in range(0, rl + 1):
        for seq in itertools.product(TK, repeat=L):
            retry(list(seq), "retry_exhaustive_len%d" % L)
    for k in range(0, mx + 4):
        for last in TK + [None]:
            retry([("timeout", i) for i in range(k)] + ([last] if last else []), "retry_k_timeouts")
    for _ in range(3000 if ctx.thorough else 400):
        n = rng.randint(0, mx + 4)
        retry([rng.choice(TK + [("timeout", 1)] * 6) for _i in range(n)], "retry_random")
    ctx.log("implementation ran on %d retry cases" % len(rcases))
    dis = ctx.cases("retry", HEADER, rcases, fn="bad", shard=250)
    ctx.log("model evaluated")
    for i, d in dis[:5]:
        ctx.log("model/impl disagree on", d)
        ctx.fail("retry:model-disagrees", d, "result of the Coq model", "implementation differs (see case)")


def replay(ctx, data):
    inp, sig = data["input"], data["sig"]
    setup_procs()
    tup = lambda o: tuple(o)
    if inp.get("kind") == "retry":
        outs = [tup(o) for o in inp["outs"]]
        res, attempts, left = run_retry(inp["verb"], outs)
        oracle_retry(ctx, inp, outs, res, attempts, left)
    elif inp.get("kind") == "pair":
        a, b = inp["first"], inp["second"]
        _, _, _, exp = run_impl(a["proc"], a["evs"], [tup(o) for o in a["outs"]], want_exp=True)
        snap = snapshot(exp)
        run_impl(b["proc"], b["evs"], [tup(o) for o in b["outs"]])
        if snapshot(exp) != snap:
            ctx.fail(sig, inp, snap, snapshot(exp))
        return
    else:
        detect_repaired()
        outs = [tup(o) for o in inp["outs"]]
        trace, info, final = run_impl(inp["proc"], inp["evs"], outs)
        oracle_life(ctx, inp, inp["evs"], outs, trace, info, final)
    if sig.endswith("model-disagrees") and not ctx.failing:
        # a pure model/implementation disagreement: re-run the comparison for this one input
        import backend as gen_backend
        global HEADER
        ctx.lib(["Backend/LifeCheck"])
        HEADER = HEADER_GEN if ctx.translate("GenLife", gen_backend.generate_life) else (HEADER_DOC_FJ if REPAIRED[0] else HEADER_DOC)
        if inp.get("kind") == "retry":
            term = t_retry(outs, res, attempts, left)
        else:
            term = t_life(inp["evs"], outs, trace, final)
        if ctx.cases("replay", HEADER, [(term, inp)], fn="bad"):
            ctx.fail(sig, inp, "trace of the Coq model", "implementation differs")
    # keep only the recorded signature if it still fails; otherwise report whatever fails now
    same = [f for f in ctx.failing if f["sig"] == sig]
    if same:
        ctx.failing[:] = same
