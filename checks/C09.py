"""C09 - Pauli-string algebra is a faithful image of matrix algebra."""
import itertools, sys, os
import numpy as np
from vlib import coqterm as ct

sys.path.insert(0, os.path.join(os.path.dirname(os.path.dirname(os.path.abspath(__file__))), "gen"))

HEADER = "From Qib Require Import Pauli.PauliCheck.\n"
PH = [1, -1j, -1, 1j]
LET = {(0, 0): np.eye(2), (0, 1): np.array([[0, 1], [1, 0]]), (1, 1): np.array([[0, -1j], [1j, 0]]),
       (1, 0): np.array([[1, 0], [0, -1]])}


def p3(z, x, q):
    return ct.pair(ct.bits(z), ct.bits(x), ct.z(q))


def p3_of(ps):
    return p3(ps.z, ps.x, ps.q)


def ref_matrix(z, x, q):
    """independent dense reference: (-i)^q kron letters, site 0 most significant"""
    m = np.ones((1, 1), dtype=complex)
    for zi, xi in zip(z, x):
        m = np.kron(m, LET[(int(zi), int(xi))])
    return PH[q % 4] * m


def dense(a):
    return np.asarray(a.toarray() if hasattr(a, "toarray") else a, dtype=complex)


# letterwise reference (independent of the check-matrix formulas): single-site products with phases
_L = {(0, 0): "I", (0, 1): "X", (1, 1): "Y", (1, 0): "Z"}
_MULT = {("X", "Y"): (1j, "Z"), ("Y", "Z"): (1j, "X"), ("Z", "X"): (1j, "Y"),
         ("Y", "X"): (-1j, "Z"), ("Z", "Y"): (-1j, "X"), ("X", "Z"): (-1j, "Y")}


def letter_product(a, b):
    """(phase, letters) of the product of two strings given as (z, x, q), site by site"""
    ph = PH[a[2] % 4] * PH[b[2] % 4]
    out = []
    for za, xa, zb, xb in zip(a[0], a[1], b[0], b[1]):
        la, lb = _L[(za, xa)], _L[(zb, xb)]
        if la == "I":
            out.append(lb)
        elif lb == "I":
            out.append(la)
        elif la == lb:
            out.append("I")
        else:
            f, l = _MULT[(la, lb)]
            ph *= f
            out.append(l)
    return ph, "".join(out)


def letter_commute(a, b):
    k = sum(1 for za, xa, zb, xb in zip(a[0], a[1], b[0], b[1])
            if (za, xa) != (0, 0) and (zb, xb) != (0, 0) and (za, xa) != (zb, xb))
    return k % 2 == 0


def rand_p(rng, n):
    return [rng.randint(0, 1) for _ in range(n)], [rng.randint(0, 1) for _ in range(n)], rng.randint(0, 3)


def run(ctx):
    import qib
    from qib.operator.pauli_operator import PauliString, WeightedPauliString, PauliOperator
    import pauli as gen_pauli
    ctx.trusted.append("C09: the Kronecker loop of PauliString.as_matrix, from_string/__str__, refactor_sign and the "
                       "PauliOperator list bookkeeping are hand-modelled (Qib.Pauli.PauliModel) and tied by correspondence; "
                       "the product/commutation/Hermiticity formulas, phase tables and q reduction are regenerated from the source")
    ctx.assumes.append("weights are ring elements (exact arithmetic); pruning with tol>0 is compared exactly on Gaussian-integer weights only")
    ctx.rules.append("strings over {I,X,Y,Z}^n with all phases: exhaustive n=1 pairs, all n=2 letter pairs, random n<=%d; "
                     "operator insertion/removal histories; parse of printed and malformed strings; raw constructor data. "
                     "non-trivial = distinct case whose strings are not all identity strings" % (14 if ctx.thorough else 8))
    ctx.lib(["Pauli/PauliCheck", "Pauli/PauliProofs2"])
    ctx.translate("GenPauli", gen_pauli.generate)
    if not any(o["name"] == "translator:GenPauli" and not o["ok"] for o in ctx.obligations):
        ok, _ = ctx.props()
        if ok and ctx.thorough:
            ctx.coqchk()
    else:
        ctx.oblige("props:C09", "theorem", False, "not compiled: translator failed")

    rng = ctx.rng
    cases = []

    def add(term, desc, nontrivial=True):
        cases.append((term, desc))
        if nontrivial:
            ctx.nontriv(desc)
        ctx.sample(desc)

    def mk(z, x, q):
        return PauliString(list(z), list(x), q)

    # ---------------------------------------------------------------- pairs
    pairs = []
    L1 = [([z], [x], q) for z in (0, 1) for x in (0, 1) for q in range(4)]
    pairs += list(itertools.product(L1, L1))
    L2 = [([z0, z1], [x0, x1]) for z0 in (0, 1) for x0 in (0, 1) for z1 in (0, 1) for x1 in (0, 1)]
    for a, b in itertools.product(L2, L2):
        pairs.append(((a[0], a[1], rng.randint(0, 3)), (b[0], b[1], rng.randint(0, 3))))
    nmax = 14 if ctx.thorough else 8
    for _ in range(10000 if ctx.thorough else 300):
        n = rng.randint(2, nmax)
        pairs.append((rand_p(rng, n), rand_p(rng, n)))
    # long strings (past machine-word sizes); the differing letters are placed near the end too
    for n in ([63, 64, 65, 70, 96, 128, 130, 200] if not ctx.thorough else [63, 64, 65, 66, 70, 96, 127, 128, 129, 130, 200, 257, 300]):
        for _ in range(6):
            a, b = rand_p(rng, n), rand_p(rng, n)
            if rng.random() < 0.6:       # sparse: identity except a few sites at the far end
                a = ([0] * n, [0] * n, a[2]); b = ([0] * n, [0] * n, b[2])
                for i in rng.sample(range(max(0, n - 8), n), 3):
                    a[0][i], a[1][i] = rng.choice([(0, 1), (1, 0), (1, 1)])
                    b[0][i], b[1][i] = rng.choice([(0, 1), (1, 0), (1, 1)])
            pairs.append((a, b))
    for a, b in pairs:
        ctx.count("pair_n=%d" % (len(a[0]) if len(a[0]) < 16 else 16 * (len(a[0]) // 16)))
        pa, pb = mk(*a), mk(*b)
        desc = {"kind": "pair", "a": a, "b": b}
        nt = any(a[0]) or any(a[1]) or any(b[0]) or any(b[1])
        try:
            pr = pa @ pb
            add("CMul %s %s %s" % (p3(*a), p3(*b), p3_of(pr)), dict(desc, op="matmul"), nt)
            add("CComm %s %s %s" % (p3(*a), p3(*b), ct.b(bool(pa.commutes_with(pb)))), dict(desc, op="commutes_with"), nt)
        except Exception as e:
            ctx.fail("pair:exception", desc, "product/commutation defined", repr(e))
            continue
        # operands are not modified by @ / commutes_with / as_matrix / str, and results are repeatable
        if (list(pa.z), list(pa.x), pa.q, list(pb.z), list(pb.x), pb.q) != (list(a[0]), list(a[1]), a[2] % 4, list(b[0]), list(b[1]), b[2] % 4):
            ctx.fail("matmul:operand-modified", desc, "operands unchanged", "changed")
        if len(a[0]) <= 4:
            m1 = dense(pr.as_matrix()); s1 = str(pr)
            pr.as_matrix(); (pa @ pb)
            t = pa @ pb
            t.set_pauli("Y", 0)            # editing one product must not leak into operands or other products
            if (not np.array_equal(dense(pr.as_matrix()), m1) or str(pr) != s1
                    or not np.array_equal(dense(pa.as_matrix()), ref_matrix(*a)) or not np.array_equal(dense(pb.as_matrix()), ref_matrix(*b))
                    or not np.array_equal(dense((pa @ pb).as_matrix()), m1)):
                ctx.fail("matmul:result-not-repeatable-or-aliased", desc, "pure function of the operands", "differs after repeated calls / editing a result")
        # letterwise oracle (any length): product string/phase and commutation
        ph, letters = letter_product(a, b)
        got_letters = "".join(pr.get_pauli(i) for i in range(len(a[0])))
        if got_letters != letters or abs(PH[pr.q % 4] - ph) > 0:
            ctx.fail("matmul:letterwise-product-differs", desc, (str(ph), letters), (str(PH[pr.q % 4]), got_letters))
        if bool(pa.commutes_with(pb)) != letter_commute(a, b):
            ctx.fail("commutes_with:letterwise-wrong", desc, letter_commute(a, b), bool(pa.commutes_with(pb)))
        # oracle on the implementation (dense reference)
        if len(a[0]) <= 6:
            A, B = ref_matrix(*a), ref_matrix(*b)
            if not np.array_equal(dense(pr.as_matrix()), A @ B):
                ctx.fail("matmul:matrix-mismatch", desc, "matrix(a@b) = matrix(a) matrix(b)", str(pr))
            if bool(pa.commutes_with(pb)) != np.array_equal(A @ B, B @ A):
                ctx.fail("commutes_with:wrong", desc, bool(np.array_equal(A @ B, B @ A)), bool(pa.commutes_with(pb)))

    # ---------------------------------------------------------------- single strings
    singles = [([], [], q) for q in range(4)] + list(L1) + [(a[0], a[1], q) for a in L2 for q in range(4)]
    for _ in range(2000 if ctx.thorough else 120):
        singles.append(rand_p(rng, rng.randint(1, 6 if ctx.thorough else 5)))
    def single_case(a, desc, nt):
        ps = mk(*a)
        M = dense(ps.as_matrix())
        add("CMat %s %s" % (p3(*a), ct.zimat(M)), dict(desc, op="as_matrix"), nt)
        add("CHerm %s %s" % (p3(*a), ct.b(bool(ps.is_hermitian()))), dict(desc, op="is_hermitian"), nt)
        s = str(ps)
        add("CPrint %s %s" % (p3(*a), ct.string_codes(s)), dict(desc, op="str"), nt)
        R = ref_matrix(*a)
        if not np.array_equal(M, R):
            ctx.fail("as_matrix:not-kron-of-letters", desc, "(-i)^q kron letters", s)
        if bool(ps.is_hermitian()) != np.array_equal(R, R.conj().T):
            ctx.fail("is_hermitian:wrong", desc, bool(np.array_equal(R, R.conj().T)), bool(ps.is_hermitian()))
        if not ps.is_unitary() or not np.array_equal(R @ R.conj().T, np.eye(len(R))):
            ctx.fail("is_unitary:wrong", desc)
        try:
            back = PauliString.from_string(s)
            if not (back == ps):
                ctx.fail("parse-print:different", desc, s, str(back))
        except Exception as e:
            ctx.fail("parse-print:exception", desc, s, repr(e))
        for kind, meth in (("CRefP", "refactor_phase"), ("CRefS", "refactor_sign")):
            # history on ONE object: observe, extract the factor, observe again (no stale matrix/str)
            h = mk(*a)
            h.as_matrix(); str(h); h.is_hermitian()
            fh = getattr(h, meth)()
            if (not np.array_equal(fh * dense(h.as_matrix()), R) or not np.array_equal(dense(h.as_matrix()), ref_matrix(list(h.z), list(h.x), h.q))
                    or str(h) != str(mk(list(h.z), list(h.x), h.q)) or bool(h.is_hermitian()) != (h.q % 2 == 0)):
                ctx.fail(meth + ":object-observed-before-extraction-is-stale-afterwards", desc, "f * new = old, views follow q", repr(fh))
            t = mk(*a)
            f = getattr(t, meth)()
            add("%s %s %s %s" % (kind, p3(*a), ct.zi(f), p3_of(t)), dict(desc, op=meth), nt)
            if not np.array_equal(f * dense(t.as_matrix()), R):
                ctx.fail(meth + ":factor-times-new-differs", desc, "f * new = old", repr(f))
            if meth == "refactor_sign" and t.q not in (0, 1):
                ctx.fail("refactor_sign:q-not-0-1", desc)

    for a in singles:
        ctx.count("single_n=%d" % len(a[0]))
        desc = {"kind": "single", "a": a}
        nt = any(a[0]) or any(a[1])
        try:
            single_case(a, desc, nt)
        except Exception as e:     # the implementation raising on a valid string is a failing input, not a harness error
            ctx.fail("single:exception:" + type(e).__name__, desc, "matrix / flags / print / refactor defined", repr(e)[:200])

    # ---------------------------------------------------------------- parsing (valid + malformed stream)
    strs = []
    for a in singles[:200]:
        s = str(mk(*a))
        strs += [s, "+" + s, " " + " ".join(s)]
    alphabet = "IXYZi-+ xa1"
    for _ in range(5000 if ctx.thorough else 250):
        strs.append("".join(rng.choice(alphabet) for _ in range(rng.randint(0, 6))))
    strs += ["", "+", "-", "i", "-i", "+-", "+i", "--X", "-iiX", "i-X", " ", "+ X", "X+", "Xi"]
    for s in dict.fromkeys(strs):
        try:
            r = PauliString.from_string(s)
            res = ct.opt(p3_of(r))
            ctx.count("parse_ok")
        except Exception as e:
            res = "None"
            ctx.count("parse_err_" + type(e).__name__)
        add("CParse %s %s" % (ct.string_codes(s), res), {"kind": "parse", "s": s}, len(s) > 1)

    # ---------------------------------------------------------------- mutator histories (set_pauli)
    LCODE = {"I": (0, 0), "X": (0, 1), "Y": (1, 1), "Z": (1, 0)}
    for h in range(2000 if ctx.thorough else 150):
        n = rng.randint(1, 5)
        a = rand_p(rng, n)
        ps = mk(*a)
        edits = []
        for _ in range(rng.randint(1, 6)):
            i, l = rng.randrange(n), rng.choice("IXYZ")
            if rng.random() < 0.5:   # prefer overwriting a non-identity site
                nz = [k for k in range(n) if ps.get_pauli(k) != "I"]
                if nz:
                    i = rng.choice(nz)
            ps.set_pauli(l, i)
            edits.append((i, l))
        desc = {"kind": "set_pauli", "a": a, "edits": edits}
        ctx.count("set_pauli_len=%d" % len(edits))
        M = dense(ps.as_matrix())
        et = ct.lst([ct.pair(ct.nat(i), ct.pair(ct.b(LCODE[l][0]), ct.b(LCODE[l][1]))) for i, l in edits])
        add("CSet %s %s %s %s" % (p3(*a), et, p3_of(ps), ct.zimat(M)), desc)
        # oracle: letters as edited, matrix = reference of those letters, products still right
        zz, xx = list(a[0]), list(a[1])
        for i, l in edits:
            zz[i], xx[i] = LCODE[l]
        R = ref_matrix(zz, xx, a[2])
        other = rand_p(rng, n)
        bad = (not np.array_equal(M, R) or str(ps) != str(mk(zz, xx, a[2]))
               or not np.array_equal(dense((ps @ mk(*other)).as_matrix()), R @ ref_matrix(*other)))
        if bad:
            ctx.fail("set_pauli:string-after-edit-wrong", dict(desc, other=other), "letters edited in place, matrix/product follow", str(ps))

    # ---------------------------------------------------------------- operator histories
    for h in range(1500 if ctx.thorough else 80):
        n = rng.randint(1, 3)
        pool = [rand_p(rng, n) for _ in range(rng.randint(1, 4))]
        ops, terms, hist = [], [], []
        op = PauliOperator()
        added = np.zeros((2 ** n, 2 ** n), dtype=complex)
        ok_zero_only = True
        step_bad = None

        def opmat():
            return dense(op.as_matrix()) if op.pstrings else np.zeros((2 ** n, 2 ** n), dtype=complex)
        for _ in range(rng.randint(1, 9)):
            before = opmat()
            if rng.random() < 0.75:
                a = rng.choice(pool)
                w = rng.choice([0, 1, -1, 2, 1j, -2j, 1 + 1j, 3 - 4j, -1, 2.0, -3])
                if hist and rng.random() < 0.3:   # force cancellation
                    prev = [e for e in hist if e[0] == "add"]
                    if prev:
                        a, w = prev[-1][1], -prev[-1][2]
                hist.append(("add", a, w))
                op.add_pauli_string(WeightedPauliString(mk(*a), w))
                added = added + w * ref_matrix(*a)
                ops.append("OAdd %s %s" % (p3(*a), ct.zi(w)))
                # per-step oracle: insertion adds exactly w * matrix(a)
                if step_bad is None and not np.array_equal(opmat(), before + w * ref_matrix(*a)):
                    step_bad = "add step %d does not add w*P" % len(hist)
            else:
                tol = rng.choice([0, 0, 0, 1, 2])
                hist.append(("remove", tol))
                if tol:
                    ok_zero_only = False
                old_list = [(w_.paulis, w_.weight) for w_ in op.pstrings]
                op.remove_zero_weight_strings(tol) if tol else op.remove_zero_weight_strings()
                ops.append("ORemove %s" % ct.z(tol * tol))
                # per-step oracle: only strings with |w| <= tol disappear, at least one stays,
                # and the matrix changes by exactly the dropped strings (nothing for tol = 0)
                kept = [id(w_.paulis) for w_ in op.pstrings]
                dropped = [(p_, w__) for p_, w__ in old_list if id(p_) not in kept]
                exp = before - sum((w__ * ref_matrix(p_.z, p_.x, p_.q) for p_, w__ in dropped), np.zeros_like(before))
                if step_bad is None and (any(abs(w__) > tol for _, w__ in dropped) or (old_list and not op.pstrings)
                                         or not np.array_equal(opmat(), exp)):
                    step_bad = "remove step %d" % len(hist)
        final = [ct.pair(p3_of(w.paulis), ct.zi(w.weight)) for w in op.pstrings]
        if op.pstrings:
            M = dense(op.as_matrix())
            mt = ct.opt(ct.zimat(M))
        else:
            M, mt = None, "None"
        desc = {"kind": "history", "n": n, "ops": hist}
        ctx.count("history_len=%d" % len(hist))
        add("COp %s %s %s" % (ct.lst(ops), ct.lst(final), mt), desc)
        if M is not None and ok_zero_only and not np.array_equal(M, added):
            ctx.fail("operator:matrix-not-weighted-sum", desc, "sum of inserted weighted strings", "differs")
        elif step_bad:
            ctx.fail("operator:history-step-wrong", desc, "each insertion adds w*P; pruning drops only negligible strings", step_bad)

    # ---------------------------------------------------------------- operators: weights of any magnitude, list ownership
    for h in range(300 if ctx.thorough else 60):
        n = rng.randint(1, 3)
        k = rng.randint(1, 5)
        items = []
        for _ in range(k):
            a = rand_p(rng, n)
            e = rng.choice([0, -8, -20, -27, -30, -40, -60, -200, -1000, 30])
            w = rng.choice([1, -1, 1j, -1j, 1 + 1j, 0.5 - 2j, 3]) * 2.0 ** e
            items.append((a, w))
        desc = {"kind": "magnitudes", "n": n, "items": [(a, repr(w)) for a, w in items]}
        ctx.count("magnitudes_k=%d" % k)
        ctx.nontriv(desc)
        lst = [WeightedPauliString(mk(*a), w) for a, w in items]
        op = PauliOperator(lst)
        exp = sum((w * ref_matrix(*a) for a, w in items), np.zeros((2 ** n, 2 ** n), dtype=complex))
        got = dense(op.as_matrix())
        if not np.allclose(got, exp, rtol=1e-12, atol=0):
            ctx.fail("operator:matrix-loses-small-or-large-weights", desc, "weighted sum entry by entry (rtol 1e-12)", "differs")
        # the operator owns its list: a second operator built from the same list, later insertions and
        # edits of the caller's list do not leak
        op2 = PauliOperator(lst)
        # (a string the operator does not hold yet, so that it is appended and no shared term object is updated)
        used = {(tuple(a[0]), tuple(a[1])) for a, _ in items}
        free = [(z, x) for z in itertools.product([0, 1], repeat=n) for x in itertools.product([0, 1], repeat=n)
                if (z, x) not in used]
        if free:
            z, x = free[rng.randrange(len(free))]
            op2.add_pauli_string(WeightedPauliString(mk(list(z), list(x), 0), 7))
        lst.append(WeightedPauliString(mk(*rand_p(rng, n)), 5))
        if not np.allclose(dense(op.as_matrix()), exp, rtol=1e-12, atol=0) or len(op.pstrings) != k:
            ctx.fail("operator:shares-its-list-with-the-caller-or-another-operator", desc, "unchanged by edits of the list it was built from", "changed")

    # ---------------------------------------------------------------- raw constructor data
    def raw(rng, n):
        return [rng.choice([0, 1, 0, 1, 0, 1, 2, -1]) for _ in range(n)]
    ctors = []
    for _ in range(2000 if ctx.thorough else 150):
        n = rng.randint(0, 5)
        z, x = raw(rng, n), raw(rng, n if rng.random() < 0.85 else n + 1)
        ctors.append((z, x, rng.randint(-9, 9), rng.choice(["list", "tuple", "array", "int8", "bool"])))
    for z, x, q, form in ctors:
        conv = {"list": list, "tuple": tuple, "array": np.array, "int8": lambda v: np.array(v, dtype=np.int8),
                "bool": lambda v: np.array(v, dtype=int)}[form]
        valid = len(z) == len(x) and set(z) <= {0, 1} and set(x) <= {0, 1}
        if form == "bool":
            if not valid:
                continue
            conv = lambda v: np.array(v, dtype=bool)
        try:
            r = PauliString(conv(z), conv(x), q)
            res = ct.opt(p3_of(r))
            accepted = True
        except ValueError:
            res, accepted = "None", False
        except Exception as e:
            res, accepted = "None", False
            ctx.fail("ctor:crash:" + type(e).__name__, {"z": z, "x": x, "q": q, "form": form}, "ValueError or accept", repr(e))
        ctx.count("ctor_%s_%s" % (form, "ok" if accepted else "refused"))
        desc = {"kind": "ctor", "z": z, "x": x, "q": q, "form": form}
        add("CCtor %s %s %s %s" % (ct.lst([ct.z(v) for v in z]), ct.lst([ct.z(v) for v in x]), ct.z(q), res), desc,
            len(z) > 0)
        if valid != accepted:
            ctx.fail("ctor:accept-iff-01-arraylike", desc, valid, accepted)
        if accepted and valid and len(z) <= 5:
            # a string built from raw data (q possibly outside 0..3) must behave like the reduced one
            R = ref_matrix(z, x, q % 4)
            red = PauliString(list(z), list(x), q % 4)
            try:
                okk = (np.array_equal(dense(r.as_matrix()), R) and r == red
                       and (len(z) == 0 or (r @ PauliString.identity(len(z))) == red)
                       and PauliString.from_string(str(r)) == red
                       and bool(r.is_hermitian()) == np.array_equal(R, R.conj().T))
                t = PauliString(conv(z), conv(x), q)
                f = t.refactor_sign()
                okk = okk and t.q in (0, 1) and np.array_equal(f * dense(t.as_matrix()), R)
                t = PauliString(conv(z), conv(x), q)
                f = t.refactor_phase()
                okk = okk and np.array_equal(f * dense(t.as_matrix()), R)
            except Exception as e:
                okk = False
            if not okk:
                ctx.fail("ctor:raw-q-not-equivalent-to-reduced", desc, "behaves like q mod 4", "differs / raises")

    dis = ctx.cases("pauli", HEADER, cases)
    for i, d in dis[:5]:
        ctx.log("model/impl disagree on", d)


def replay(ctx, data):
    """re-run the oracles on one recorded input"""
    from qib.operator.pauli_operator import PauliString, WeightedPauliString, PauliOperator
    inp, sig = data["input"], data["sig"]
    bad = False
    try:
        if inp.get("kind") == "pair":
            a, b = inp["a"], inp["b"]
            pa, pb = PauliString(*a), PauliString(*b)
            pr = pa @ pb
            ph, letters = letter_product(a, b)
            bad |= "".join(pr.get_pauli(i) for i in range(len(a[0]))) != letters or abs(PH[pr.q % 4] - ph) > 0
            bad |= bool(pa.commutes_with(pb)) != letter_commute(a, b)
            if len(a[0]) <= 8:
                A, B = ref_matrix(*a), ref_matrix(*b)
                bad |= not np.array_equal(dense(pr.as_matrix()), A @ B)
                bad |= bool(pa.commutes_with(pb)) != np.array_equal(A @ B, B @ A)
        elif inp.get("kind") == "single":
            a = inp["a"]
            ps = PauliString(*a)
            R = ref_matrix(*a)
            bad |= not np.array_equal(dense(ps.as_matrix()), R)
            bad |= bool(ps.is_hermitian()) != np.array_equal(R, R.conj().T)
            try:
                bad |= not (PauliString.from_string(str(ps)) == ps)
            except Exception:
                bad = True
            for meth in ("refactor_phase", "refactor_sign"):
                t = PauliString(*a)
                f = getattr(t, meth)()
                bad |= not np.array_equal(f * dense(t.as_matrix()), R)
                h = PauliString(*a)
                h.as_matrix(); str(h)
                fh = getattr(h, meth)()
                bad |= not np.array_equal(fh * dense(h.as_matrix()), R)
        elif inp.get("kind") == "history":
            op = PauliOperator()
            added = 0
            n = inp["n"]
            zero_only = True

            def opmat():
                return dense(op.as_matrix()) if op.pstrings else np.zeros((2 ** n, 2 ** n), dtype=complex)
            for e in inp["ops"]:
                before = opmat()
                if e[0] == "add":
                    w = complex(e[2].strip("()")) if isinstance(e[2], str) else e[2]
                    op.add_pauli_string(WeightedPauliString(PauliString(*e[1]), w))
                    added = added + w * ref_matrix(*e[1])
                    bad |= not np.array_equal(opmat(), before + w * ref_matrix(*e[1]))
                else:
                    zero_only &= e[1] == 0
                    op.remove_zero_weight_strings(e[1])
                    if e[1] == 0:
                        bad |= not np.array_equal(opmat(), before)
            if zero_only and op.pstrings:
                bad |= not np.array_equal(dense(op.as_matrix()), added)
        elif inp.get("kind") == "magnitudes":
            n = inp["n"]
            items = [(a, complex(w)) for a, w in inp["items"]]
            lst = [WeightedPauliString(PauliString(*a), w) for a, w in items]
            op = PauliOperator(lst)
            exp = sum((w * ref_matrix(*a) for a, w in items), np.zeros((2 ** n, 2 ** n), dtype=complex))
            bad |= not np.allclose(dense(op.as_matrix()), exp, rtol=1e-12, atol=0)
            op2 = PauliOperator(lst)
            used = {(tuple(a[0]), tuple(a[1])) for a, _ in items}
            free = [(z, x) for z in itertools.product([0, 1], repeat=n) for x in itertools.product([0, 1], repeat=n)
                    if (z, x) not in used]
            if free:
                op2.add_pauli_string(WeightedPauliString(PauliString(list(free[0][0]), list(free[0][1]), 0), 7))
            lst.append(WeightedPauliString(PauliString([1] * n, [0] * n, 0), 5))
            bad |= not np.allclose(dense(op.as_matrix()), exp, rtol=1e-12, atol=0) or len(op.pstrings) != len(items)
        elif inp.get("kind") == "set_pauli":
            LCODE = {"I": (0, 0), "X": (0, 1), "Y": (1, 1), "Z": (1, 0)}
            a = inp["a"]
            ps = PauliString(*a)
            zz, xx = list(a[0]), list(a[1])
            for i, l in inp["edits"]:
                ps.set_pauli(l, i)
                zz[i], xx[i] = LCODE[l]
            R = ref_matrix(zz, xx, a[2])
            bad |= not np.array_equal(dense(ps.as_matrix()), R)
            if "other" in inp:
                o = inp["other"]
                bad |= not np.array_equal(dense((ps @ PauliString(*o)).as_matrix()), R @ ref_matrix(*o))
        elif inp.get("kind") == "ctor":
            z, x, q = inp["z"], inp["x"], inp["q"]
            valid = len(z) == len(x) and set(z) <= {0, 1} and set(x) <= {0, 1}
            try:
                r = PauliString(z, x, q)
                acc = True
            except Exception:
                acc = False
            bad |= valid != acc
            if acc and valid:
                try:
                    red = PauliString(z, x, q % 4)
                    bad |= not (r == red) or not (PauliString.from_string(str(r)) == red)
                    t = PauliString(z, x, q)
                    t.refactor_sign()
                    bad |= t.q not in (0, 1)
                except Exception:
                    bad = True
    except Exception:      # the implementation raising on a recorded (valid) input is the failure
        bad = True
    if bad:
        ctx.fail(sig, inp, data.get("expected"), "still fails")
