"""C10 - second-quantised operators obey the fermionic algebra.

Also hosts the helpers shared by C11/C12 (operator generator, exact conversion to Coq terms,
independent numpy reference built from the property text)."""
import itertools, sys, os
from fractions import Fraction
import numpy as np
from vlib import coqterm as ct

sys.path.insert(0, os.path.join(os.path.dirname(os.path.dirname(os.path.abspath(__file__))), "gen"))

HEADER = "From Qib Require Import Fermi.FermiCheck.\nFrom Coq Require Import QArith.\n"

# ---------------------------------------------------------------------------------------------
# independent reference (from the property text): Jordan-Wigner matrices by np.kron with the
# sign string on the LATER sites, site 0 = most significant Kronecker factor
I2 = np.eye(2)
Z2 = np.diag([1.0, -1.0])
X2 = np.array([[0.0, 1.0], [1.0, 0.0]])
Y2 = np.array([[0.0, -1j], [1j, 0.0]])
LOWER = np.array([[0.0, 1.0], [0.0, 0.0]])     # |0><1| : annihilates an occupied site


def kron_all(ms):
    out = np.ones((1, 1), dtype=complex)
    for m in ms:
        out = np.kron(out, m)
    return out


def ref_lad(L, i, create):
    a = kron_all([I2] * i + [LOWER] + [Z2] * (L - i - 1))
    return a.conj().T if create else a


def ref_term_matrix(L, pat, coeffs, lad=None):
    """sum over multi-indices of coeff * ordered product"""
    lad = lad or (lambda i, c: ref_lad(L, i, c))
    M = np.zeros((2 ** L, 2 ** L), dtype=complex)
    for idx in itertools.product(range(L), repeat=len(pat)):
        c = coeffs[idx] if len(pat) else coeffs[()]
        if c == 0:
            continue
        P = np.eye(2 ** L, dtype=complex)
        for kind, j in zip(pat, idx):
            P = P @ lad(j, bool(kind))
        M += c * P
    return M


def ref_op_matrix(L, terms, lad=None):
    M = np.zeros((2 ** L, 2 ** L), dtype=complex)
    for pat, coeffs in terms:
        M += ref_term_matrix(L, pat, coeffs, lad)
    return M


def dense(a):
    if hasattr(a, "toarray"):
        a = a.toarray()
    return np.asarray(a, dtype=complex)


# ---------------------------------------------------------------------------------------------
# building implementation objects from plain descriptions
class World:
    def __init__(self):
        import qib
        self.qib = qib
        self.fields = {}

    def field(self, L):
        if L not in self.fields:
            latt = self.qib.lattice.IntegerLattice((L,), pbc=False)
            self.fields[L] = self.qib.field.Field(self.qib.field.ParticleType.FERMION, latt)
        return self.fields[L]

    def term(self, L, pat, coeffs):
        op = self.qib.operator
        f = self.field(L)
        return op.FieldOperatorTerm(
            [op.IFODesc(f, op.IFOType.FERMI_CREATE if k else op.IFOType.FERMI_ANNIHIL) for k in pat], coeffs)

    def op(self, L, terms):
        return self.qib.FieldOperator([self.term(L, p, c) for p, c in terms])

    def pat_of(self, term):
        T = self.qib.operator.IFOType
        out = []
        for d in term.opdesc:
            if d.otype == T.FERMI_CREATE:
                out.append(1)
            elif d.otype == T.FERMI_ANNIHIL:
                out.append(0)
            else:
                raise ValueError("non-fermionic operator type")
        return out

    def terms_of(self, fop):
        return [(self.pat_of(t), np.asarray(t.coeffs)) for t in fop.terms]


# description <-> JSON-able form (for samples / replay files)
def desc_terms(L, terms):
    return {"L": L, "terms": [{"pat": list(map(int, p)), "shape": list(np.shape(c)),
                               "coeffs": [[float(np.real(v)), float(np.imag(v))] for v in np.asarray(c).reshape(-1)]}
                              for p, c in terms]}


def undesc_terms(d):
    L = d["L"]
    terms = []
    for t in d["terms"]:
        flat = np.array([complex(a, b) for a, b in t["coeffs"]], dtype=complex)
        terms.append((t["pat"], flat.reshape(tuple(t["shape"]))))
    return L, terms


# ---------------------------------------------------------------------------------------------
# Coq term text (short literals: q0 = 0, qz a b = a + b i for integers, full rationals otherwise)
def qi(v):
    v = complex(v)
    if v == 0:
        return "q0"
    if v.real == int(v.real) and v.imag == int(v.imag):
        return "(qz %s %s)" % (ct.z(int(v.real)), ct.z(int(v.imag)))
    return ct.qi(v)


def qimat(m):
    return ct.lst([ct.lst([qi(c) for c in row]) for row in m])


def cterm(pat, coeffs):
    return ct.pair(ct.bits(pat), ct.lst([qi(v) for v in np.asarray(coeffs).reshape(-1)]))


def cop(terms):
    return ct.lst([cterm(p, c) for p, c in terms])


# ---------------------------------------------------------------------------------------------
# generators: exact (dyadic Gaussian) coefficient tensors
VALS = [1, -1, 2, -2, 0.5, -0.5, 1j, -1j, 1 + 1j, 1 - 2j, 0.5j, -1.5 + 0.5j, 3, 0.25, -0.75j, 2 - 1j]


def rand_coeffs(rng, L, k, style):
    shape = (L,) * k
    n = L ** k
    if style == "zero":
        flat = [0] * n
    elif style == "dense":
        flat = [rng.choice(VALS) for _ in range(n)]
    elif style == "sparse":
        flat = [rng.choice(VALS) if rng.random() < 0.25 else 0 for _ in range(n)]
    elif style == "single":
        flat = [0] * n
        flat[rng.randrange(n)] = rng.choice(VALS)
    elif style == "real-int":
        return np.array([rng.choice([0, 1, -1, 2, 3]) for _ in range(n)], dtype=int).reshape(shape)
    elif style == "real":
        return np.array([rng.choice([0, 0.5, -1.5, 2.0, 1.0]) for _ in range(n)], dtype=float).reshape(shape)
    else:
        raise ValueError(style)
    return np.array(flat, dtype=complex).reshape(shape)


STYLES = ["dense", "dense", "sparse", "sparse", "single", "zero", "real-int", "real"]


def rand_pat(rng, k):
    r = rng.random()
    if r < 0.15:
        return [1] * k
    if r < 0.3:
        return [0] * k
    return [rng.randint(0, 1) for _ in range(k)]


def rand_term(rng, L, kmax=4, budget=700):
    ks = [k for k in range(0, kmax + 1) if L ** k <= budget]
    k = rng.choice(ks)
    return rand_pat(rng, k), rand_coeffs(rng, L, k, rng.choice(STYLES))


def rand_terms(rng, L, nterms=None, kmax=4, budget=700, need_field=True):
    nterms = nterms or rng.choice([1, 1, 2, 2, 3])
    terms = [rand_term(rng, L, kmax, budget) for _ in range(nterms)]
    if need_field and all(len(p) == 0 for p, _ in terms):
        # FieldOperator.as_matrix needs at least one operator to find the field
        terms.append(([1, 0], rand_coeffs(rng, L, 2, "sparse")))
    return terms


def hermitian_like(rng, L, k2):
    """term with a symmetric pattern and (mostly) conjugate-symmetric coefficients"""
    half = [rng.randint(0, 1) for _ in range(k2)]
    pat = half + [1 - b for b in reversed(half)]
    c = rand_coeffs(rng, L, 2 * k2, rng.choice(["dense", "sparse"]))
    c = c + c.conj().T
    if rng.random() < 0.3 and c.size > 1:      # break the symmetry in one entry
        idx = tuple(rng.randrange(L) for _ in range(2 * k2))
        c[idx] += rng.choice([1, 1j, 0.5])
    return pat, c


def hermitian_like_odd(rng, L, k2):
    """odd pattern, symmetric except for the middle operator (never Hermitian as a pattern),
    with conjugate-symmetric coefficients"""
    half = [rng.randint(0, 1) for _ in range(k2)]
    pat = half + [rng.randint(0, 1)] + [1 - b for b in reversed(half)]
    c = rand_coeffs(rng, L, 2 * k2 + 1, "dense")
    return pat, c + c.conj().T


def special_terms(L):
    """cancellation-heavy inputs"""
    out = []
    eye = np.eye(L, dtype=complex)
    out.append(("a+a + aa+ (= L * identity)", [([1, 0], eye), ([0, 1], eye)]))
    anti = np.zeros((L, L), dtype=complex)
    sym = np.zeros((L, L), dtype=complex)
    for i in range(L):
        for j in range(L):
            if i < j:
                anti[i, j], anti[j, i] = (i + 1) + 0.5j * j, -((i + 1) + 0.5j * j)
            sym[i, j] = 1 + min(i, j) + 1j * max(i, j)
    out.append(("antisymmetric aa", [([0, 0], anti)]))
    out.append(("symmetric aa (= 0)", [([0, 0], sym)]))
    out.append(("symmetric a+a+ (= 0) plus number", [([1, 1], sym), ([1, 0], eye)]))
    full = np.ones((L, L), dtype=complex)
    out.append(("all-ones hopping both orders", [([1, 0], full), ([0, 1], full)]))
    return out


def nontrivial(terms):
    return any(len(p) > 0 and np.any(np.asarray(c) != 0) for p, c in terms)


# ---------------------------------------------------------------------------------------------
# oracles on the implementation (C10)
def impl_lad(W, L, i, create):
    """clist[i] / alist[i] observed through the public API"""
    e = np.zeros(L)
    e[i] = 1.0
    return dense(W.op(L, [([1 if create else 0], e)]).as_matrix())


def oracle_car(ctx, W, L, lad, prefix="lad", inp_extra=None):
    """CAR, vacuum, number operators for a family lad(i, create) of 2^L matrices"""
    d = 2 ** L
    A = [lad(i, False) for i in range(L)]
    C = [lad(i, True) for i in range(L)]
    vac = np.zeros(d)
    vac[0] = 1
    base = dict(inp_extra or {}, L=L)
    for i in range(L):
        if not np.array_equal(C[i], A[i].conj().T):
            ctx.fail(prefix + ":create-not-adjoint-of-annihil", dict(base, kind="car", i=i))
        if np.any(A[i] @ vac != 0):
            ctx.fail(prefix + ":annihilator-does-not-kill-empty-state", dict(base, kind="car", i=i))
        N = C[i] @ A[i]
        want = np.diag([float((b >> (L - 1 - i)) & 1) for b in range(d)])
        if not np.array_equal(N, np.diag(np.diag(N))):
            ctx.fail(prefix + ":number-operator-not-diagonal", dict(base, kind="car", i=i))
        elif prefix == "lad" and not np.array_equal(N, want):
            ctx.fail(prefix + ":number-operator-wrong-occupation", dict(base, kind="car", i=i))
        for j in range(L):
            ac = A[i] @ C[j] + C[j] @ A[i]
            if not np.array_equal(ac, np.eye(d) if i == j else np.zeros((d, d))):
                ctx.fail(prefix + ":CAR-annihil-create", dict(base, kind="car", i=i, j=j),
                         "{a_i, a_j^dag} = delta_ij", "differs")
            if np.any(A[i] @ A[j] + A[j] @ A[i] != 0) or np.any(C[i] @ C[j] + C[j] @ C[i] != 0):
                ctx.fail(prefix + ":CAR-same-kind", dict(base, kind="car", i=i, j=j), "{a_i, a_j} = 0", "differs")


def oracle_op(ctx, W, L, terms, what=("matrix", "adjoint")):
    """matrix = weighted sum of ordered products (reference); adjoint"""
    d = desc_terms(L, terms)
    fop = W.op(L, terms)
    M = dense(fop.as_matrix())
    R = ref_op_matrix(L, terms)
    if not np.array_equal(M, R):
        ctx.fail("as_matrix:not-weighted-sum-of-ordered-products", dict(d, kind="op"),
                 "sum coeff * ordered product of reference ladder matrices", "max diff %g" % np.abs(M - R).max())
    Ma = dense(fop.adjoint().as_matrix())
    if not np.array_equal(Ma, M.conj().T):
        ctx.fail("adjoint:matrix-not-adjoint", dict(d, kind="op"), "matrix(adjoint A) = matrix(A)^dagger",
                 "max diff %g" % np.abs(Ma - M.conj().T).max())
    return fop, M


def oracle_pair(ctx, W, L, ta, tb):
    d = {"kind": "pair", "a": desc_terms(L, ta), "b": desc_terms(L, tb)}
    A, B = W.op(L, ta), W.op(L, tb)
    MA, MB = dense(A.as_matrix()), dense(B.as_matrix())
    S = dense((A + B).as_matrix())
    if not np.array_equal(S, MA + MB):
        ctx.fail("add:matrix-not-sum", d, "matrix(A+B) = matrix(A) + matrix(B)", "max diff %g" % np.abs(S - MA - MB).max())
    P = dense((A @ B).as_matrix())
    if not np.array_equal(P, MA @ MB):
        ctx.fail("matmul:matrix-not-product", d, "matrix(A@B) = matrix(A) matrix(B)", "max diff %g" % np.abs(P - MA @ MB).max())
    return A, B


def oracle_herm(ctx, W, L, pat, coeffs):
    t = W.term(L, pat, coeffs)
    flag = bool(t.is_hermitian())
    if flag:
        M = dense(W.qib.FieldOperator([t]).as_matrix()) if len(pat) else None
        if M is not None and not np.array_equal(M, M.conj().T):
            ctx.fail("is_hermitian:flagged-but-matrix-not-hermitian", dict(desc_terms(L, [(pat, coeffs)]), kind="herm"),
                     "M = M^dagger", "max diff %g" % np.abs(M - M.conj().T).max())
    return flag


# ---------------------------------------------------------------------------------------------
# EXACT reference (rational arithmetic) straight from the property text: the ladder operators as signed
# partial permutations  c_i|b> = [b_i = 0] (-1)^(sum_{j>i} b_j) |b + e_i>,  a_i likewise with b_i = 1
# (basis states as integers, site 0 = most significant bit).  Independent of the np.kron reference above.
def act_ladder(L, create, i, b):
    sh = L - 1 - i
    if ((b >> sh) & 1) == (1 if create else 0):
        return None
    later = b & ((1 << sh) - 1)
    return (-1 if bin(later).count("1") & 1 else 1), b ^ (1 << sh)


def fermi_entries(L):
    """entries(pat, idx) -> [(row, col, re, im)] of the ordered product, entries are +-1"""
    def entries(pat, idx):
        out = []
        ops = list(zip(pat, idx))[::-1]          # the rightmost operator acts first
        for col in range(2 ** L):
            s, b = 1, col
            for kind, j in ops:
                r = act_ladder(L, bool(kind), j, b)
                if r is None:
                    b = None
                    break
                s, b = s * r[0], r[1]
            if b is not None:
                out.append((b, col, s, 0))
        return out
    return entries


def dense_entries(L, lad):
    """entries(pat, idx) for a family lad(i, create) of dense matrices whose entries are dyadic (products are
    exact in binary64 for the short products used here)"""
    cache = {}

    def entries(pat, idx):
        key = (tuple(pat), tuple(idx))
        if key not in cache:
            P = np.eye(2 ** L, dtype=complex)
            for kind, j in zip(pat, idx):
                P = P @ lad(j, bool(kind))
            rr, cc = np.nonzero(P)
            cache[key] = [(int(r), int(c), Fraction(float(P[r, c].real)), Fraction(float(P[r, c].imag))) for r, c in zip(rr, cc)]
        return cache[key]
    return entries


class ExactRef:
    """sum over terms and multi-indices of coeff * ordered product, in exact rational arithmetic.
    R[(r,c)] = [re, im] (Fractions); per entry the number of contributions and the sum of their magnitudes
    (for a rigorous bound on the rounding error of ANY summation order); the same per 'x-diagonal' r xor c."""
    def __init__(self, L, terms, entries, site_x=None):
        """site_x(j): the x-diagonal (row xor column) the ladder matrices of site j live on; default: the
        reference operators (bit of site j).  Used only for the rounding bound of the encoders, where the 2^k
        strings of a coefficient are accumulated one by one even if the product as a whole vanishes."""
        self.L = L
        self.R, self.cnt, self.mag = {}, {}, {}
        self.xcnt, self.xmag = {}, {}
        site_x = site_x or (lambda j: 1 << (L - 1 - j))
        for pat, coeffs in terms:
            coeffs = np.asarray(coeffs)
            for idx in itertools.product(range(L), repeat=len(pat)):
                c = complex(coeffs[idx])
                if c == 0:
                    continue
                cre, cim = Fraction(c.real), Fraction(c.imag)
                mag = Fraction(abs(c.real)) + Fraction(abs(c.imag))
                x = 0
                for j in idx:
                    x ^= site_x(j)
                self.xcnt[x] = self.xcnt.get(x, 0) + 2 ** len(pat)
                self.xmag[x] = self.xmag.get(x, 0) + mag
                for r, col, vre, vim in entries(pat, idx):
                    e = self.R.setdefault((r, col), [Fraction(0), Fraction(0)])
                    e[0] += cre * vre - cim * vim
                    e[1] += cre * vim + cim * vre
                    m = mag * (abs(vre) + abs(vim))
                    self.cnt[(r, col)] = self.cnt.get((r, col), 0) + 1
                    self.mag[(r, col)] = self.mag.get((r, col), 0) + m

    def entry(self, r, c):
        return self.R.get((r, c), (Fraction(0), Fraction(0)))

    def entry_bound(self, r, c, exact_products=True):
        """bound on |computed - exact| for binary64 accumulation in any order; 0 for a single contribution
        with an exact product"""
        n = self.cnt.get((r, c), 0)
        k = n - 1 if exact_products else n + 1
        if k <= 0:
            return Fraction(0)
        return k * (self.mag[(r, c)] * Fraction(1, 2 ** 51) + Fraction(1, 2 ** 1073))

    def xbound(self, x):
        n = self.xcnt.get(x, 0)
        if n == 0:
            return Fraction(0)
        return (n + 2) * (self.xmag[x] * Fraction(1, 2 ** 50) + Fraction(1, 2 ** 1072))

    def compare(self, M, exact_products=True):
        """None if the complex matrix M is the exact sum up to the rounding bound, else a description;
        second component: whether M is EXACTLY the rational sum"""
        M = np.asarray(M)
        d = 2 ** self.L
        if M.shape != (d, d):
            return "shape %r" % (M.shape,), False
        if not np.all(np.isfinite(M)):
            return "non-finite entries", False
        exact = True
        rr, cc = np.nonzero(M)
        todo = set(zip(map(int, rr), map(int, cc))) | set(self.R)
        for r, c in todo:
            v = complex(M[r, c])
            ere, eim = self.entry(r, c)
            dre, dim = abs(Fraction(v.real) - ere), abs(Fraction(v.imag) - eim)
            if dre or dim:
                exact = False
                if max(dre, dim) > self.entry_bound(r, c, exact_products):
                    return ("entry (%d,%d): observed %r, exact value %s%+sj (allowed rounding error %.3g)"
                            % (r, c, v, fstr(ere), fstr(eim), float(self.entry_bound(r, c, exact_products)))), False
        return None, exact


def fstr(fr):
    """short readable form of a Fraction that may be far outside the binary64 range"""
    try:
        return "%.17g" % float(fr)
    except OverflowError:
        return str(fr)


def scale_terms(terms, e):
    """multiply every coefficient by 2^e (exact as long as nothing leaves the normal range)"""
    return [(p, np.asarray(c, dtype=complex) * (2.0 ** e)) for p, c in terms]


# exponents e of the coefficient scale 2^e: subnormals, 1e-300 ... 1e300, dense around the thresholds a
# "numerically zero" test would use (1e-8 ~ 2^-26.6, 1e-12 ~ 2^-39.9, 1e-14 ~ 2^-46.5, 1e-16 ~ 2^-53)
EXPS = [-1074, -1060, -1030, -1022, -1000, -900, -700, -500, -300, -200, -150, -120, -100, -80, -70, -64, -60,
        -56, -53, -52, -50, -48, -47, -46, -45, -44, -42, -40, -37, -34, -32, -30, -28, -27, -26, -25, -24, -22,
        -20, -17, -14, -12, -10, -7, -4, -2, 2, 5, 10, 20, 30, 40, 53, 64, 100, 200, 300, 500, 700, 900, 1000]
# patterns whose ordered product is non-zero for the listed kind of index
NZ_PATS = [[1], [0], [1, 0], [0, 1], [1, 0, 1], [0, 1, 0], [1, 1, 0, 0]]


def single_entry_term(rng, L, e):
    """one non-zero coefficient u * 2^e (u a unit 1, -1, i, -i) on a product that does not vanish"""
    pats = [p for p in NZ_PATS if len(p) < 4 or L >= 2]
    pat = rng.choice(pats)
    k = len(pat)
    if k == 4:
        i, j = rng.sample(range(L), 2)
        idx = (i, j, j, i)
    elif k == 3:
        i = rng.randrange(L)
        idx = (i, i, i)
    else:
        idx = tuple(rng.randrange(L) for _ in range(k))
    c = np.zeros((L,) * k, dtype=complex)
    c[idx] = rng.choice([1, -1, 1j, -1j]) * 2.0 ** e
    return pat, c


def xor_mask(L, idx):
    m = 0
    for j in idx:
        m ^= 1 << (L - 1 - j)
    return m


def mixed_scale_terms(rng, L, nterms, emax=1000, kmax=3):
    """several scales inside ONE tensor, arranged so that the arithmetic stays exact: the scale of c[idx] is a
    function of the set-parity of idx (coefficients with different parities never meet in a matrix entry nor in
    a Pauli string, for the reference operators and for both encodings)"""
    table = {}
    terms = []
    for _ in range(nterms):
        k = rng.choice([k for k in range(1, kmax + 1) if L ** k <= 100])
        pat = rand_pat(rng, k)
        c = np.zeros((L,) * k, dtype=complex)
        for idx in itertools.product(range(L), repeat=k):
            if rng.random() < 0.6:
                m = xor_mask(L, idx)
                if m not in table:
                    table[m] = rng.choice([-emax, -emax // 2, -300, -100, -60, -47, -40, -30, -27, -20, 0, 20, 60, 300, emax // 2, emax])
                c[idx] = rng.choice(VALS) * 2.0 ** table[m]
        terms.append((pat, c))
    return terms


def interacting_scale_terms(rng, L, nterms, exps=(0, -27, -30, -40), kmax=3):
    """scales that DO meet in one matrix entry / Pauli weight: small integers times 2^0, 2^-27, 2^-30, 2^-40
    (all partial sums fit into 53 bits, so binary64 arithmetic is still exact)"""
    terms = []
    for _ in range(nterms):
        k = rng.choice([k for k in range(1, kmax + 1) if L ** k <= 64])
        pat = rand_pat(rng, k)
        c = np.zeros((L,) * k, dtype=complex)
        for idx in itertools.product(range(L), repeat=k):
            if rng.random() < 0.7:
                c[idx] = complex(rng.randint(-3, 3), rng.choice([0, 0, 1, -2])) * 2.0 ** rng.choice(exps)
        terms.append((pat, c))
    return terms


def scaled_family(rng, thorough, Lmax=3):
    """(L, terms, tag, e) : operators whose coefficient magnitudes sweep the binary64 range"""
    out = []
    for e in EXPS:
        for rep in range(2 if thorough else 1):
            L = rng.choice(list(range(1, Lmax + 1)))
            out.append((L, [single_entry_term(rng, L, e)], "single", e))
        if -1020 <= e <= 1000:
            L = rng.choice([1, 2, 2, 3][:Lmax + 1])
            k = rng.choice([1, 2, 2, 3] if L < 3 else [1, 2, 2])
            base_terms = [(rand_pat(rng, k), rand_coeffs(rng, L, k, rng.choice(["dense", "sparse", "dense"])))]
            if rng.random() < 0.4:
                base_terms.append((rand_pat(rng, 2), rand_coeffs(rng, L, 2, "dense")))
            out.append((L, scale_terms(base_terms, e), "one-scale", e))
    for _ in range(24 if thorough else 8):
        L = rng.choice([2, 2, 3][:Lmax])
        out.append((L, mixed_scale_terms(rng, L, rng.choice([1, 2])), "mixed-disjoint", None))
        out.append((L, interacting_scale_terms(rng, L, rng.choice([1, 2])), "mixed-interacting", None))
    return out


def long_product_terms(rng, thorough):
    """(L, terms): products of 5..8 ladder operators (the 2^-k weight, deep products), one or two coefficients"""
    out = []
    for k in ([5, 6, 7, 8] if not thorough else [5, 5, 6, 6, 7, 7, 8, 8, 9]):
        L = rng.choice([1, 2, 2])
        i = rng.randrange(L)
        first = rng.randint(0, 1)
        pat = [(first + t) % 2 for t in range(k)]            # alternating: never vanishes on one site
        c = np.zeros((L,) * k, dtype=complex)
        c[(i,) * k] = rng.choice([1, -2, 1j, 0.5 - 0.5j, 3])
        if L == 2:
            idx = tuple(rng.randrange(L) for _ in range(k))
            c[idx] += rng.choice([1, -1j, 2])
        out.append((L, [(pat, c)]))
    return out


def large_lattice_terms(rng, thorough, Ls=(6, 7, 8)):
    """(L, terms): few coefficients on larger lattices (the sign string is long here), patterns of length 1, 2, 4"""
    out = []
    for L in Ls:
        for rep in range(3 if thorough else 2):
            terms = []
            for k in rng.sample([1, 2, 2, 4], 2):
                pat = rand_pat(rng, k) if k < 4 else rng.choice([[1, 1, 0, 0], [1, 0, 1, 0], [0, 1, 1, 0]])
                c = np.zeros((L,) * k, dtype=complex)
                for _ in range(3):
                    idx = tuple(rng.choice([0, L - 1, rng.randrange(L), rng.randrange(L)]) for _ in range(k))
                    c[idx] = rng.choice(VALS)
                terms.append((pat, c))
            out.append((L, terms))
    return out


def layout_variants(rng, terms):
    """the same operator with its coefficient tensors stored differently: Fortran order, a strided view of a larger
    array, a reversed-and-reversed view, another dtype where the values allow it"""
    out = []
    for pat, c in terms:
        c = np.asarray(c)
        r = rng.random()
        if c.ndim == 0:
            v = c
        elif r < 0.25:
            v = np.asfortranarray(c)
        elif r < 0.6:
            big = np.zeros(tuple(2 * n for n in c.shape), dtype=c.dtype)
            big[tuple(slice(None, None, 2) for _ in c.shape)] = c
            big[tuple(slice(1, None, 2) for _ in c.shape)] = 7       # garbage between the entries
            v = big[tuple(slice(None, None, 2) for _ in c.shape)]
        elif r < 0.8:
            v = np.ascontiguousarray(c[tuple(slice(None, None, -1) for _ in c.shape)])[tuple(slice(None, None, -1) for _ in c.shape)]
        else:
            v = np.asarray(c, dtype=complex).T.copy().T
        out.append((pat, v))
    return out


def oracle_layout(ctx, W, L, terms, rng):
    d = dict(desc_terms(L, terms), kind="layout")
    M = dense(W.op(L, terms).as_matrix())
    M2 = dense(W.op(L, layout_variants(rng, terms)).as_matrix())
    if not np.array_equal(M, M2):
        ctx.fail("as_matrix:depends-on-memory-layout-of-the-coefficients", d, "same matrix for equal tensors", "max diff %g" % np.abs(M - M2).max())


def oracle_opx(ctx, W, L, terms, check_adjoint=True):
    """as_matrix against the exact rational reference (any coefficient magnitude); returns (matrix, exact?)"""
    d = dict(desc_terms(L, terms), kind="opx")
    fop = W.op(L, terms)
    M = dense(fop.as_matrix())
    ref = ExactRef(L, terms, fermi_entries(L))
    bad, exact = ref.compare(M)
    if bad:
        ctx.fail("as_matrix:coefficient-lost-or-distorted(any-magnitude)", d,
                 "sum coeff * ordered product, exactly (rational arithmetic) up to the binary64 rounding bound", bad)
    if check_adjoint:
        Ma = dense(fop.adjoint().as_matrix())
        bad2, _ = ref.compare(Ma.conj().T)
        if bad2:
            ctx.fail("adjoint:matrix-not-adjoint(any-magnitude)", d, "matrix(adjoint A) = matrix(A)^dagger", bad2)
    return M, (exact or bool(bad))


def oracle_homog(ctx, W, L, terms, e):
    """homogeneity: matrix(2^e A) = 2^e matrix(A), exactly (a power of two commutes with rounding)"""
    d = dict(desc_terms(L, terms), kind="homog", e=e)
    M0 = dense(W.op(L, terms).as_matrix())
    M1 = dense(W.op(L, scale_terms(terms, e)).as_matrix())
    if not np.array_equal(M1, M0 * 2.0 ** e):
        ctx.fail("as_matrix:not-homogeneous-in-the-coefficients", d, "matrix(2^%d A) = 2^%d matrix(A)" % (e, e),
                 "max |difference| / 2^e = %g" % float(np.abs(M1 * 2.0 ** -e - M0).max()))


def oracle_additive(ctx, W, L, pat, c1, c2):
    """additivity in the coefficient tensor: matrix(pat, c1 + c2) = matrix(pat, c1) + matrix(pat, c2)
    (the caller supplies tensors for which the three evaluations are exact)"""
    d = {"kind": "additive", "L": L, "a": desc_terms(L, [(pat, c1)]), "b": desc_terms(L, [(pat, c2)])}
    M1 = dense(W.op(L, [(pat, c1)]).as_matrix())
    M2 = dense(W.op(L, [(pat, c2)]).as_matrix())
    M12 = dense(W.op(L, [(pat, c1 + c2)]).as_matrix())
    if not np.array_equal(M12, M1 + M2):
        ctx.fail("as_matrix:not-additive-in-the-coefficients", d, "matrix(c1 + c2) = matrix(c1) + matrix(c2)",
                 "max diff %g" % float(np.abs(M12 - M1 - M2).max()))


# ---------------------------------------------------------------------------------------------
# Hermitian flag, both ways: coefficient tensors with every kind of (partial) symmetry on every pattern
def herm_ref_flag(pat, c):
    """the definition, index by index (no .T): the term equals its own adjoint - the pattern read backwards is the
    adjoint pattern and c[i1..ik] = conj(c[ik..i1]) for every multi-index"""
    k = len(pat)
    if any(pat[i] == pat[k - 1 - i] for i in range(k)):
        return False
    c = np.asarray(c)
    return all(c[idx] == np.conj(c[idx[::-1]]) for idx in itertools.product(*[range(n) for n in c.shape]))


SYMMETRY_KINDS = ["reversal", "half-exchange", "pair-swaps", "cyclic-shift", "real-fully-symmetric", "real-half-exchange",
                  "generic", "anti-reversal", "reversal-one-entry-broken", "half-exchange-and-reversal", "diagonal-real", "zero"]


def symmetric_coeffs(rng, L, k, kind):
    """complex tensor g made symmetric under ONE index permutation combined with complex conjugation (or another
    listed variant); entries dyadic, so comparisons are exact"""
    g = rand_coeffs(rng, L, k, "dense")
    h = k // 2
    rev = tuple(range(k))[::-1]
    half = tuple(range(h, k)) + tuple(range(h))
    if kind == "reversal":
        return g + g.conj().transpose(rev)
    if kind == "half-exchange":
        return g + g.conj().transpose(half)
    if kind == "pair-swaps":                         # (0 1)(2 3)..: neighbouring indices exchanged
        perm = tuple(i ^ 1 if (i ^ 1) < k else i for i in range(k))
        return g + g.conj().transpose(perm)
    if kind == "cyclic-shift":
        perm = tuple(range(1, k)) + (0,)
        out = np.zeros_like(g)
        t = g
        for _ in range(k):
            out = out + t
            t = t.transpose(perm)
        return out
    if kind == "real-fully-symmetric":
        out = np.zeros(g.shape)
        r = np.asarray(rand_coeffs(rng, L, k, "real"), dtype=float)
        for perm in itertools.permutations(range(k)):
            out = out + r.transpose(perm)
        return out.astype(complex)
    if kind == "real-half-exchange":
        r = np.asarray(rand_coeffs(rng, L, k, "real-int"), dtype=float)
        return (r + r.transpose(half)).astype(complex)
    if kind == "generic":
        return g
    if kind == "anti-reversal":
        return g - g.conj().transpose(rev)
    if kind == "reversal-one-entry-broken":
        c = g + g.conj().transpose(rev)
        idx = tuple(rng.randrange(L) for _ in range(k))
        c[idx] += rng.choice([1, 1j, 0.5])
        return c
    if kind == "half-exchange-and-reversal":
        c = g + g.conj().transpose(rev)
        return c + c.conj().transpose(half)
    if kind == "diagonal-real":
        c = np.zeros_like(g)
        for i in range(L):
            c[(i,) * k] = rng.choice([1, -2, 0.5, 3])
        return c
    if kind == "zero":
        return np.zeros_like(g)
    raise ValueError(kind)


def herm_sweep_inputs(rng, thorough):
    """(L, pattern, coefficients, symmetry kind): every arrangement of 2, 4 (6 on two sites) operators x every symmetry"""
    out = []
    for k, Ls in ((2, [2, 3]), (4, [2, 3] if thorough else [2, 2, 3]), (6, [2])):
        pats = list(itertools.product((0, 1), repeat=k))
        for pat in pats:
            palin = all(pat[i] != pat[k - 1 - i] for i in range(k))
            kinds = SYMMETRY_KINDS if palin else rng.sample(SYMMETRY_KINDS, 1 if k == 6 and not thorough else 2)
            if k == 6 and palin and not thorough:
                kinds = ["reversal", "half-exchange", "pair-swaps", "half-exchange-and-reversal"] + rng.sample(SYMMETRY_KINDS, 2)
            for kind in kinds:
                if kind == "real-fully-symmetric" and k == 6:
                    continue
                L = rng.choice(Ls)
                out.append((L, list(pat), symmetric_coeffs(rng, L, k, kind), kind))
    return out


def oracle_herm2(ctx, W, L, pat, coeffs, sym=None):
    """the flag both ways: flagged => the matrix is Hermitian (the property); a term that IS its own adjoint
    (pattern and coefficients, index by index) must be flagged and must have a Hermitian matrix"""
    d = dict(desc_terms(L, [(pat, coeffs)]), kind="herm2", symmetry=sym)
    t = W.term(L, pat, coeffs)
    flag = bool(t.is_hermitian())
    want = herm_ref_flag(pat, coeffs)
    M = dense(W.qib.FieldOperator([t]).as_matrix())
    mh = np.array_equal(M, M.conj().T)
    if flag and not mh:
        ctx.fail("is_hermitian:flagged-but-matrix-not-hermitian", d, "M = M^dagger", "max diff %g" % np.abs(M - M.conj().T).max())
    if want and not flag:
        ctx.fail("is_hermitian:not-flagged-although-the-term-equals-its-adjoint", d, True, False)
    if want and not mh:
        ctx.fail("as_matrix:term-equal-to-its-adjoint-has-non-hermitian-matrix", d, "M = M^dagger", "max diff %g" % np.abs(M - M.conj().T).max())
    return flag, want, mh


# ---------------------------------------------------------------------------------------------
# memory layouts and library-made operands for + and @
OP_LAYOUTS = ["C", "F", "transposed-view", "strided", "reversed", "swapaxes-view"]


def lay_out(c, name):
    """the same logical tensor (np.array_equal holds), stored differently"""
    c = np.asarray(c)
    if c.ndim == 0 or name == "C":
        return np.ascontiguousarray(c) if c.ndim else c
    if name == "F":
        return np.asfortranarray(c)
    if name == "transposed-view":
        return np.ascontiguousarray(c.T).T
    if name == "strided":
        big = np.full(tuple(2 * n for n in c.shape), 7, dtype=c.dtype)
        big[tuple(slice(None, None, 2) for _ in c.shape)] = c
        return big[tuple(slice(None, None, 2) for _ in c.shape)]
    if name == "reversed":
        rv = tuple(slice(None, None, -1) for _ in c.shape)
        return np.ascontiguousarray(c[rv])[rv]
    if name == "swapaxes-view":
        if c.ndim < 2:
            return np.ascontiguousarray(c)
        return np.swapaxes(np.ascontiguousarray(np.swapaxes(c, 0, c.ndim - 1)), 0, c.ndim - 1)
    raise ValueError(name)


def expr_build(W, L, e):
    """operand expression (JSON) -> FieldOperator made through the library's own methods"""
    o = e["op"]
    if o == "leaf":
        _, terms = undesc_terms(dict(e["terms"], L=L))
        return W.op(L, [(p, lay_out(c, lay)) for (p, c), lay in zip(terms, e["layouts"])])
    if o == "adjoint":
        return expr_build(W, L, e["x"]).adjoint()
    if o == "matmul":
        return expr_build(W, L, e["x"]) @ expr_build(W, L, e["y"])
    if o == "add":
        return expr_build(W, L, e["x"]) + expr_build(W, L, e["y"])
    raise ValueError(o)


def expr_ref(L, e):
    """its matrix from the definition: reference ladder matrices, dagger, matrix product, sum"""
    o = e["op"]
    if o == "leaf":
        _, terms = undesc_terms(dict(e["terms"], L=L))
        return ref_op_matrix(L, terms)
    if o == "adjoint":
        return expr_ref(L, e["x"]).conj().T
    if o == "matmul":
        return expr_ref(L, e["x"]) @ expr_ref(L, e["y"])
    return expr_ref(L, e["x"]) + expr_ref(L, e["y"])


def expr_rank(e):
    if e["op"] == "leaf":
        return max(len(t["pat"]) for t in e["terms"]["terms"])
    if e["op"] == "adjoint":
        return expr_rank(e["x"])
    if e["op"] == "matmul":
        return expr_rank(e["x"]) + expr_rank(e["y"])
    return max(expr_rank(e["x"]), expr_rank(e["y"]))


def expr_name(e):
    if e["op"] == "leaf":
        return "leaf[%s]" % ",".join(e["layouts"])
    if e["op"] == "adjoint":
        return "adjoint(%s)" % expr_name(e["x"])
    return "%s(%s,%s)" % (e["op"], expr_name(e["x"]), expr_name(e["y"]))


def rand_leaf(rng, L, kmax, layout=None, nterms=None):
    terms = []
    for _ in range(nterms or rng.choice([1, 1, 2])):
        k = rng.choice([k for k in (1, 2, 2, 3) if k <= kmax])
        terms.append((rand_pat(rng, k), rand_coeffs(rng, L, k, "dense")))
    d = desc_terms(L, terms)
    return {"op": "leaf", "terms": {"terms": d["terms"]}, "layouts": [layout or rng.choice(OP_LAYOUTS) for _ in terms]}


OPERAND_SHAPES = ["leaf", "adjoint", "adjoint-adjoint", "adjoint-times-leaf", "leaf-times-adjoint", "adjoint-of-product",
                  "product-of-adjoints", "sum-with-adjoint"]


def rand_operand(rng, L, shape, kmax, layout=None):
    lf = lambda km=kmax: rand_leaf(rng, L, km, layout)
    adj = lambda x: {"op": "adjoint", "x": x}
    if shape == "leaf":
        return lf()
    if shape == "adjoint":
        return adj(lf())
    if shape == "adjoint-adjoint":
        return adj(adj(lf()))
    km = max(1, min(2, kmax))
    if shape == "adjoint-times-leaf":
        return {"op": "matmul", "x": adj(lf(km)), "y": lf(km)}
    if shape == "leaf-times-adjoint":
        return {"op": "matmul", "x": lf(km), "y": adj(lf(km))}
    if shape == "adjoint-of-product":
        return adj({"op": "matmul", "x": lf(km), "y": lf(km)})
    if shape == "product-of-adjoints":
        return {"op": "matmul", "x": adj(lf(km)), "y": adj(lf(km))}
    if shape == "sum-with-adjoint":
        return {"op": "add", "x": lf(), "y": adj(lf())}
    raise ValueError(shape)


def operand_pairs(rng, thorough):
    """(L, A, B): every layout for each side of @ and + against every layout of the other side (2-index tensors at
    least on one side), and every library-made operand shape on each side"""
    out = []
    for la in OP_LAYOUTS:
        for lb in OP_LAYOUTS:
            if not thorough and la == "C" and lb == "C":
                continue
            L = rng.choice([2, 3])
            a = rand_leaf(rng, L, 3 if L == 2 else 2, la, nterms=1)
            b = rand_leaf(rng, L, 2, lb, nterms=rng.choice([1, 2]))
            if all(len(t["pat"]) < 2 for t in a["terms"]["terms"]):
                a = rand_leaf(rng, L, 2, la, nterms=1)
                a["terms"]["terms"][0:1] = desc_terms(L, [(rand_pat(rng, 2), rand_coeffs(rng, L, 2, "dense"))])["terms"]
            out.append((L, a, b))
    for sa in OPERAND_SHAPES:
        for sb in OPERAND_SHAPES:
            if not thorough and rng.random() < 0.45 and "leaf" not in (sa, sb):
                continue
            L = 2
            out.append((L, rand_operand(rng, L, sa, 2), rand_operand(rng, L, sb, 2)))
    return out


def oracle_operands(ctx, W, L, ea, eb):
    """A + B, A @ B, B @ A for operands that are stored non-contiguously or were made by the library (adjoints,
    products, sums of those): every matrix against the definition, computed from the logical description only"""
    d = {"kind": "expr", "L": L, "a": ea, "b": eb, "shape": "%s ; %s" % (expr_name(ea), expr_name(eb))}
    A, B = expr_build(W, L, ea), expr_build(W, L, eb)
    RA, RB = expr_ref(L, ea), expr_ref(L, eb)
    for nm, X, R in (("A", A, RA), ("B", B, RB)):
        M = dense(X.as_matrix())
        if not np.array_equal(M, R):
            ctx.fail("operand:matrix-of-a-library-made-or-non-contiguous-operand-differs-from-the-definition", d,
                     "matrix(%s) from the definition" % nm, "max diff %g" % np.abs(M - R).max())
            return None
    S = dense((A + B).as_matrix())
    if not np.array_equal(S, RA + RB):
        ctx.fail("add:matrix-not-sum(non-contiguous-or-library-made-operands)", d, "matrix(A+B) = matrix(A) + matrix(B)",
                 "max diff %g" % np.abs(S - RA - RB).max())
    for nm, X, Y, R in (("A@B", A, B, RA @ RB), ("B@A", B, A, RB @ RA)):
        P = dense((X @ Y).as_matrix())
        if not np.array_equal(P, R):
            ctx.fail("matmul:matrix-not-product(non-contiguous-or-library-made-operands)", d,
                     "matrix(%s) = product of the matrices" % nm, "max diff %g" % np.abs(P - R).max())
    return A, B


# ---------------------------------------------------------------------------------------------
# history / aliasing: operations must not modify their operands, and results are reproducible
def snapshot(W, fop):
    return [(tuple(W.pat_of(t)), np.array(t.coeffs, copy=True), np.asarray(t.coeffs).dtype.str) for t in fop.terms]


def snapshot_diff(W, snap, fop):
    if len(fop.terms) != len(snap):
        return "number of terms changed from %d to %d" % (len(snap), len(fop.terms))
    for n, ((pat, c, dt), t) in enumerate(zip(snap, fop.terms)):
        if tuple(W.pat_of(t)) != pat:
            return "operator pattern of term %d changed" % n
        tc = np.asarray(t.coeffs)
        if tc.shape != c.shape or not np.array_equal(tc, c):
            return "coefficient tensor of term %d changed" % n
    return None


def oracle_history(ctx, W, L, ta, tb):
    """A + B, A @ B, adjoint(), as_matrix() leave A and B as they were (values of the coefficient arrays, patterns,
    term lists); B can be used afterwards; repeated evaluations give identical results"""
    d = {"kind": "hist", "a": desc_terms(L, ta), "b": desc_terms(L, tb)}
    A, B = W.op(L, ta), W.op(L, tb)
    sa, sb = snapshot(W, A), snapshot(W, B)
    MA, MB = dense(A.as_matrix()), dense(B.as_matrix())

    def unchanged(after):
        for nm, snap, X in (("A", sa, A), ("B", sb, B)):
            df = snapshot_diff(W, snap, X)
            if df:
                ctx.fail("history:operand-modified-by-" + after, d, "%s unchanged by %s" % (nm, after), "%s: %s" % (nm, df))
                return False
        return True
    ok = unchanged("as_matrix")
    if not (np.array_equal(dense(A.as_matrix()), MA) and np.array_equal(dense(B.as_matrix()), MB)):
        ctx.fail("history:as_matrix-not-reproducible", d, "two calls of as_matrix() on one object agree", "differ")
    S = A + B
    ok = unchanged("add") and ok
    MS = dense(S.as_matrix())
    P = A @ B
    ok = unchanged("matmul") and ok
    MP = dense(P.as_matrix())
    Ad = A.adjoint()
    Bd = B.adjoint()
    ok = unchanged("adjoint") and ok
    MAd = dense(Ad.as_matrix())
    # everything again, in another order, re-using the operands and the earlier results
    S2 = A + B
    T = B + A
    Q = B @ A
    AA = A + A
    tot = sum([A, B, A])
    ok = unchanged("repeated-add-matmul") and ok
    checks = [("matrix(B) after the operations", dense(B.as_matrix()), MB),
              ("matrix(A) after the operations", dense(A.as_matrix()), MA),
              ("matrix(A+B) evaluated again", dense(S.as_matrix()), MS),
              ("matrix of a second A+B", dense(S2.as_matrix()), MS),
              ("matrix(A+B) = matrix(A)+matrix(B) (operands evaluated afterwards)", MS, MA + MB),
              ("matrix(B+A) = matrix(A+B)", dense(T.as_matrix()), MB + MA),
              ("matrix(A@B) evaluated again", dense(P.as_matrix()), MP),
              ("matrix(A@B) = matrix(A) matrix(B)", MP, MA @ MB),
              ("matrix(B@A) = matrix(B) matrix(A)", dense(Q.as_matrix()), MB @ MA),
              ("matrix(A+A) = 2 matrix(A)", dense(AA.as_matrix()), MA + MA),
              ("matrix(sum([A,B,A]))", dense(tot.as_matrix()), (MA + MB) + MA),
              ("matrix(adjoint A) evaluated again", dense(Ad.as_matrix()), MAd),
              ("matrix(adjoint A) = matrix(A)^dagger", MAd, MA.conj().T),
              ("matrix(adjoint(adjoint B)) = matrix(B)", dense(Bd.adjoint().as_matrix()), MB)]
    for what, got, want in checks:
        if got.shape != want.shape or not np.array_equal(got, want):
            ctx.fail("history:result-depends-on-earlier-operations", d, what, "differs (max %g)" % (
                float(np.abs(got - want).max()) if got.shape == want.shape else -1))
            break
    return ok


def dup_pattern_terms(rng, L):
    """operand with two (or three) terms of the SAME operator pattern, and a partner without that pattern"""
    k = rng.choice([1, 2, 2])
    pat = rand_pat(rng, k)
    tb = [(pat, rand_coeffs(rng, L, k, "dense")) for _ in range(rng.choice([2, 2, 3]))]
    other = [1 - b for b in pat] if rng.random() < 0.6 else pat + [rng.randint(0, 1)]
    ta = [(other, rand_coeffs(rng, L, len(other), "dense"))]
    if rng.random() < 0.3:
        tb.insert(1, (other[::-1] + [0], rand_coeffs(rng, L, len(other) + 1, "sparse")))
    return ta, tb


def run(ctx):
    import fermi as gen_fermi
    W = World()
    ctx.trusted.append("C10: regenerated from FieldOperator.as_matrix on every run (gen/fermi.py, fail-closed, every statement of the "
                       "method whitelisted): the site matrices I,Z,U, the factor-selection rule of clist[i], alist = clist^dagger, AND the "
                       "accumulation loop statement by statement (for term / for coeff in np.nditer / `if coeff == 0: continue` / "
                       "fstring = identity / fstring = fstring @ clist[j]|alist[j] by operator type / op += coeff * fstring); theorem "
                       "C10_code_loop_is_weighted_sum_of_ordered_products is about that text. Assumed: np.nditer(a, multi_index) visits "
                       "every multi-index once with coeff = a[multi_index]. Hand-modelled (Qib.Fermi.FermiModel) and tied by "
                       "correspondence: FieldOperatorTerm.adjoint/__matmul__, FieldOperator.__add__/__matmul__/adjoint, is_hermitian "
                       "(additionally a template tie: their normalised source must be exactly the text the model was written "
                       "from, every class/method bound once - translator GenFieldOpMethods); "
                       "numpy semantics assumed: coeffs.conj().T reverses all axes, kron+reshape = outer product, "
                       "sparse.kron is associative, scipy.sparse arithmetic = dense arithmetic")
    ctx.assumes.append("coefficients are ring elements (exact arithmetic); np.allclose in is_hermitian is modelled by exact "
                       "equality (the code's flag is approximate: rtol 1e-5, atol 1e-8)")
    Lmax = 5
    ctx.rules.append("single fermionic field on L<=%d sites; operators with 1-3 terms, patterns of length 0-4 (incl. "
                     "all-create / all-annihilate), coefficient tensors dense / sparse / single-entry / all-zero / int / real, "
                     "entries dyadic Gaussian rationals; plus cancellation-heavy specials. Coefficient magnitudes: scale 2^e for "
                     "e in -1074 (subnormal) ... 1000 (61 exponents, dense around 1e-8/1e-12/1e-14/1e-16), single-entry and dense "
                     "tensors, several scales inside one tensor (disjoint and interacting), compared with an exact rational "
                     "reference (rounding bound 0 for single contributions) and sent to the Coq model when binary64 arithmetic "
                     "was exact; homogeneity matrix(2^e A) = 2^e matrix(A) and additivity in the tensor; products of 5-8 operators; "
                     "history/aliasing: A+B, A@B, adjoint(), as_matrix() leave operands unchanged (value snapshots), repeated "
                     "evaluation identical, operands with repeated patterns. Hermitian flag both ways: every arrangement of 2 / 4 / 6 "
                     "operators x coefficient tensors symmetric under reversal+conj / half exchange+conj / pair swaps+conj / cyclic shift / all "
                     "permutations (real) / none / anti / one entry broken: flagged => Hermitian matrix, term equal to its adjoint => flagged. "
                     "Operands of + and @: every memory layout (C, F, transposed view, strided with garbage, reversed, swapaxes view) on each side "
                     "against every layout on the other, and operands made by the library (adjoint, adjoint of adjoint, products with / of adjoints, "
                     "adjoint of a product, sum with an adjoint) on each side: matrices against the definition. non-trivial = distinct case "
                     "with at least one operator and a non-zero coefficient" % Lmax)
    ctx.lib(["Fermi/FermiCheck", "Fermi/FermiTerms"])
    ok = ctx.translate("GenFieldOp", gen_fermi.generate_fo)
    # template tie: the small methods the model copies by hand (adjoint, @, +, is_hermitian, IFOType.adjoint, constructors)
    # have exactly the modelled source; every definition in the module is bound once
    ctx.translate("GenFieldOpMethods", gen_fermi.generate_fo_methods)
    if ok:
        pok, _ = ctx.props()
        if pok and ctx.thorough:
            ctx.coqchk()
    else:
        ctx.oblige("props:C10", "theorem", False, "not compiled: translator failed")

    rng = ctx.rng
    cases = []

    def add(term, desc, nt=True):
        cases.append((term, desc))
        if nt:
            ctx.nontriv(desc)
        ctx.sample(desc)

    # ------------------------------------------------------------ ladder matrices, all L, i
    for L in range(1, Lmax + 1):
        try:
            oracle_car(ctx, W, L, lambda i, c: impl_lad(W, L, i, c))
        except Exception as e:
            ctx.fail("lad:exception", {"kind": "car", "L": L}, "ladder matrices", repr(e))
            continue
        for i in range(L):
            for create in (False, True):
                M = impl_lad(W, L, i, create)
                ctx.count("ladder_L=%d" % L)
                if not np.array_equal(M, ref_lad(L, i, create)):
                    ctx.fail("lad:not-reference-jordan-wigner-matrix", {"kind": "car", "L": L, "i": i},
                             "I..I (x) |1><0| (x) Z..Z with the sign string on later sites", "differs")
                if L <= 4 or (ctx.thorough or i in (0, L - 1)):
                    add("CLad %s %s %s %s" % (ct.nat(L), ct.nat(i), ct.b(create), qimat(M)),
                        {"kind": "ladder", "L": L, "i": i, "create": create})

    # ------------------------------------------------------------ operators
    ops = []
    nrand = 500 if ctx.thorough else 130
    for _ in range(nrand):
        L = rng.choice([1, 2, 2, 3, 3, 3, 4, 4, 5])
        ops.append((L, rand_terms(rng, L, budget=700 if L < 5 or ctx.thorough else 130)))
    for L in range(1, Lmax + 1):
        for name, terms in special_terms(L):
            ops.append((L, terms))
        # every pattern of length <= 3 once (length 4 in the thorough tier), sparse coefficients
        for k in range(1, 5 if ctx.thorough else 4):
            if L ** k > 700:
                continue
            for pat in itertools.product((0, 1), repeat=k):
                if L >= 4 and not ctx.thorough and rng.random() < 0.6:
                    continue
                ops.append((L, [(list(pat), rand_coeffs(rng, L, k, "sparse" if L ** k > 30 else "dense"))]))
    for L, terms in ops:
        ctx.count("op_L=%d" % L)
        for p, _ in terms:
            ctx.count("pattern_len=%d" % len(p))
        d = dict(desc_terms(L, terms), kind="op")
        try:
            fop, M = oracle_op(ctx, W, L, terms)
        except Exception as e:
            ctx.fail("as_matrix:exception", d, "matrix", repr(e))
            continue
        nt = nontrivial(terms)
        add("CMat %s %s %s" % (ct.nat(L), cop(terms), qimat(M)), dict(d, op="as_matrix"), nt)
        adj = W.terms_of(fop.adjoint())
        add("CAdj %s %s %s" % (ct.nat(L), cop(terms), cop(adj)), dict(d, op="adjoint"), nt)
        # the defining nested sums themselves, where they are cheap enough
        cost = sum((L ** len(p)) * (2 ** L) ** (max(len(p), 1) + 1) for p, _ in terms)
        if cost <= 40000:
            ctx.count("defining_sum_cases")
            add("CMatDef %s %s %s" % (ct.nat(L), cop(terms), qimat(M)), dict(d, op="as_matrix(definition)"), nt)

    ctx.log("operators done: %d cases" % len(cases))
    # ------------------------------------------------------------ coefficient magnitudes over the binary64 range
    # exact rational oracle + homogeneity/additivity + (where the arithmetic is exact) the Coq model on the same data
    for L, terms, tag, e in scaled_family(rng, ctx.thorough):
        ctx.count("scaled_" + tag)
        d = dict(desc_terms(L, terms), kind="opx")
        try:
            M, exact = oracle_opx(ctx, W, L, terms)
        except Exception as ex:
            ctx.fail("as_matrix:exception", d, "matrix", repr(ex))
            continue
        if exact and 2 ** L * 2 ** L * sum(np.asarray(c).size for _, c in terms) <= 2000:
            ctx.count("scaled_cases_for_the_model")
            add("CMat %s %s %s" % (ct.nat(L), cop(terms), qimat(M)), dict(d, op="as_matrix", scale=tag, e=e), nontrivial(terms))
        elif not exact:
            ctx.count("scaled_rounded(not sent to the model)")
    for L, terms in large_lattice_terms(rng, ctx.thorough):
        ctx.count("large_lattice_L=%d" % L)
        try:
            oracle_opx(ctx, W, L, terms)
            R = ref_op_matrix(L, terms)
            if not np.array_equal(dense(W.op(L, terms).as_matrix()), R):
                ctx.fail("as_matrix:not-weighted-sum-of-ordered-products", dict(desc_terms(L, terms), kind="op"),
                         "sum coeff * ordered product of reference ladder matrices (np.kron)", "differs")
        except Exception as ex:
            ctx.fail("as_matrix:exception", dict(desc_terms(L, terms), kind="opx"), "matrix", repr(ex))
    for _ in range(60 if ctx.thorough else 20):
        L = rng.choice([1, 2, 3, 3, 4])
        terms = rand_terms(rng, L, kmax=3, budget=100)
        ctx.count("layout")
        try:
            oracle_layout(ctx, W, L, terms, rng)
        except Exception as ex:
            ctx.fail("as_matrix:exception", dict(desc_terms(L, terms), kind="layout"), "matrix", repr(ex))
    for L, terms in long_product_terms(rng, ctx.thorough):
        ctx.count("long_products")
        d = dict(desc_terms(L, terms), kind="opx")
        try:
            M, exact = oracle_opx(ctx, W, L, terms)
            add("CMat %s %s %s" % (ct.nat(L), cop(terms), qimat(M)), dict(d, op="as_matrix", long=len(terms[0][0])), True)
        except Exception as ex:
            ctx.fail("as_matrix:exception", d, "matrix", repr(ex))
    for _ in range(40 if ctx.thorough else 14):
        L = rng.choice([1, 2, 2, 3])
        terms = rand_terms(rng, L, nterms=rng.choice([1, 2]), kmax=3, budget=64)
        e = rng.choice([-900, -500, -300, -100, -60, -47, -40, -30, -27, -20, -10, 10, 40, 100, 300, 900])
        ctx.count("homogeneity")
        try:
            oracle_homog(ctx, W, L, terms, e)
            k = rng.choice([1, 2])
            pat = rand_pat(rng, k)
            c1 = rand_coeffs(rng, L, k, "dense")
            c2 = np.asarray(rand_coeffs(rng, L, k, "sparse"), dtype=complex) * 2.0 ** rng.choice([-30, -27, -40, 0])
            oracle_additive(ctx, W, L, pat, c1, c2)
        except Exception as ex:
            ctx.fail("as_matrix:exception", dict(desc_terms(L, terms), kind="homog", e=e), "matrix", repr(ex))
    # ------------------------------------------------------------ sums and products
    npairs = 300 if ctx.thorough else 60
    for _ in range(npairs):
        L = rng.choice([1, 2, 2, 3, 3, 4])
        ta = rand_terms(rng, L, nterms=rng.choice([1, 2]), kmax=2, budget=100)
        tb = rand_terms(rng, L, nterms=rng.choice([1, 2]), kmax=2, budget=100)
        d = {"kind": "pair", "a": desc_terms(L, ta), "b": desc_terms(L, tb)}
        ctx.count("pair_L=%d" % L)
        try:
            A, B = oracle_pair(ctx, W, L, ta, tb)
        except Exception as e:
            ctx.fail("pair:exception", d, "sum/product", repr(e))
            continue
        nt = nontrivial(ta) and nontrivial(tb)
        add("CMul %s %s %s %s" % (ct.nat(L), cop(ta), cop(tb), cop(W.terms_of(A @ B))), dict(d, op="matmul"), nt)
        add("CAdd %s %s %s %s" % (ct.nat(L), cop(ta), cop(tb), cop(W.terms_of(A + B))), dict(d, op="add"), nt)

    # high-rank operands (products of rank up to 8) on one or two sites
    for _ in range(40 if ctx.thorough else 12):
        L = rng.choice([1, 2, 2])
        ka, kb = rng.choice([2, 3, 3, 4]), rng.choice([1, 2, 3, 4])
        if rng.random() < 0.5:
            ka, kb = kb, ka
        ta = [(rand_pat(rng, ka), rand_coeffs(rng, L, ka, rng.choice(["dense", "sparse"])))]
        tb = [(rand_pat(rng, kb), rand_coeffs(rng, L, kb, rng.choice(["dense", "sparse"])))]
        if rng.random() < 0.3:
            tb.append((rand_pat(rng, 1), rand_coeffs(rng, L, 1, "dense")))
        d = {"kind": "pair", "a": desc_terms(L, ta), "b": desc_terms(L, tb)}
        ctx.count("pair_high_rank")
        try:
            A, B = oracle_pair(ctx, W, L, ta, tb)
        except Exception as e:
            ctx.fail("pair:exception", d, "sum/product", repr(e))
            continue
        add("CMul %s %s %s %s" % (ct.nat(L), cop(ta), cop(tb), cop(W.terms_of(A @ B))), dict(d, op="matmul"), nontrivial(ta) and nontrivial(tb))
        add("CAdj %s %s %s" % (ct.nat(L), cop(W.terms_of(A @ B)), cop(W.terms_of((A @ B).adjoint()))), dict(d, op="adjoint(A@B)"), True)

    # memory layouts of both operands, operands made by the library itself (adjoints, products, sums of those)
    for L, ea, eb in operand_pairs(rng, ctx.thorough):
        d = {"kind": "expr", "L": L, "a": ea, "b": eb}
        ctx.count("operand_pairs")
        for e_ in (ea, eb):
            ctx.count("operand_" + (e_["op"] if e_["op"] != "leaf" else "leaf_" + e_["layouts"][0]))
        try:
            r = oracle_operands(ctx, W, L, ea, eb)
        except Exception as e:
            ctx.fail("pair:exception", d, "sum/product", repr(e))
            continue
        if r is not None and expr_rank(ea) + expr_rank(eb) <= 6:
            A, B = r
            ta_, tb_ = W.terms_of(A), W.terms_of(B)
            add("CMul %s %s %s %s" % (ct.nat(L), cop(ta_), cop(tb_), cop(W.terms_of(A @ B))), dict(d, op="matmul"), True)

    # ------------------------------------------------------------ history / aliasing
    for n in range(120 if ctx.thorough else 40):
        L = rng.choice([1, 2, 2, 3])
        if n % 3 == 0:
            ta, tb = dup_pattern_terms(rng, L)
            if rng.random() < 0.5:
                ta, tb = tb, ta
        elif n % 3 == 1:
            ta = rand_terms(rng, L, nterms=rng.choice([1, 2, 3]), kmax=2, budget=30)
            tb = rand_terms(rng, L, nterms=rng.choice([1, 2, 3]), kmax=2, budget=30)
        else:
            # two scales that meet in sums and products, chosen so that every partial result fits into 53 bits
            ta = interacting_scale_terms(rng, L, rng.choice([1, 2]), exps=(0, -12), kmax=2)
            tb = scale_terms(rand_terms(rng, L, nterms=rng.choice([1, 2]), kmax=2, budget=30), rng.choice([-30, -27, -20]))
        ctx.count("history")
        try:
            oracle_history(ctx, W, L, ta, tb)
        except Exception as ex:
            ctx.fail("history:exception", {"kind": "hist", "a": desc_terms(L, ta), "b": desc_terms(L, tb)}, "operations", repr(ex))

    # ------------------------------------------------------------ Hermitian flag
    nh = 400 if ctx.thorough else 90
    for _ in range(nh):
        L = rng.choice([1, 2, 2, 3, 3, 4])
        r = rng.random()
        if r < 0.6:
            k2 = rng.choice([0, 1, 1, 1, 2] if L <= 3 else [0, 1, 1])
            pat, c = hermitian_like(rng, L, k2)
        elif r < 0.8:
            pat, c = hermitian_like_odd(rng, L, rng.choice([0, 1]))
        else:
            pat, c = rand_term(rng, L, kmax=3, budget=100)
        d = dict(desc_terms(L, [(pat, c)]), kind="herm")
        try:
            flag = oracle_herm(ctx, W, L, pat, c)
        except Exception as e:
            ctx.fail("is_hermitian:exception", d, "flag", repr(e))
            continue
        ctx.count("herm_flag_%s" % flag)
        add("CHerm %s %s %s" % (ct.nat(L), cterm(pat, c), ct.b(flag)), dict(d, op="is_hermitian"), len(pat) > 0)
    # every arrangement of 2 / 4 / 6 operators x coefficient tensors with each kind of partial symmetry: the flag both ways
    for L, pat, c, sym in herm_sweep_inputs(rng, ctx.thorough):
        d = dict(desc_terms(L, [(pat, c)]), kind="herm2", symmetry=sym)
        try:
            flag, want, mh = oracle_herm2(ctx, W, L, pat, c, sym)
        except Exception as e:
            ctx.fail("is_hermitian:exception", d, "flag", repr(e))
            continue
        ctx.count("herm_sweep_len=%d_flag_%s" % (len(pat), flag))
        ctx.count("herm_sweep_symmetry_%s_flag_%s" % (sym, flag))
        if len(pat) <= 4 or sym in ("reversal", "half-exchange"):
            add("CHerm %s %s %s" % (ct.nat(L), cterm(pat, c), ct.b(flag)), dict(d, op="is_hermitian"), True)
    # the flag is approximate (np.allclose): record one witness, not a violation
    L = 2
    c = np.array([[0, 1], [1 + 1e-9, 0]], dtype=complex)
    t = W.term(L, [1, 0], c)
    M = dense(W.qib.FieldOperator([t]).as_matrix())
    ctx.notes.append("is_hermitian uses np.allclose: coefficients [[0,1],[1+1e-9,0]] are flagged %s, |M-M^dagger|max = %.1e"
                     % (bool(t.is_hermitian()), np.abs(M - M.conj().T).max()))

    ctx.log("harness done: %d cases; evaluating the model in Coq" % len(cases))
    dis = ctx.cases("fermi", HEADER + "Definition dummy : encparams QI := {| ep_tab := jw_tab; ep_weight := fun _ c => c; ep_keepdim := false |}.\n"
                    "Definition bad_cases := fbad_cases dummy dummy 0%Q 0%Q.\n", cases, shard=50)
    for i, d in dis[:5]:
        ctx.log("model/impl disagree on", str(d)[:300])


def replay(ctx, data):
    W = World()
    inp, sig = data["input"], data["sig"]
    kind = inp.get("kind")
    before = len(ctx.failing)
    if kind == "car":
        L = inp["L"]
        oracle_car(ctx, W, L, lambda i, c: impl_lad(W, L, i, c))
        for i in range(L):
            for create in (False, True):
                if not np.array_equal(impl_lad(W, L, i, create), ref_lad(L, i, create)):
                    ctx.fail("lad:not-reference-jordan-wigner-matrix", inp)
    elif kind == "op":
        L, terms = undesc_terms(inp)
        oracle_op(ctx, W, L, terms)
    elif kind == "pair":
        L, ta = undesc_terms(inp["a"])
        _, tb = undesc_terms(inp["b"])
        oracle_pair(ctx, W, L, ta, tb)
    elif kind == "herm":
        L, terms = undesc_terms(inp)
        oracle_herm(ctx, W, L, *terms[0])
    elif kind == "herm2":
        L, terms = undesc_terms(inp)
        oracle_herm2(ctx, W, L, terms[0][0], terms[0][1], inp.get("symmetry"))
    elif kind == "expr":
        oracle_operands(ctx, W, inp["L"], inp["a"], inp["b"])
    elif kind == "opx":
        L, terms = undesc_terms(inp)
        oracle_opx(ctx, W, L, terms)
    elif kind == "layout":
        L, terms = undesc_terms(inp)
        import random
        for sd in range(8):
            oracle_layout(ctx, W, L, terms, random.Random(sd))
    elif kind == "homog":
        L, terms = undesc_terms(inp)
        oracle_homog(ctx, W, L, terms, inp["e"])
    elif kind == "additive":
        L, ta = undesc_terms(inp["a"])
        _, tb = undesc_terms(inp["b"])
        oracle_additive(ctx, W, L, ta[0][0], ta[0][1], tb[0][1])
    elif kind == "hist":
        L, ta = undesc_terms(inp["a"])
        _, tb = undesc_terms(inp["b"])
        oracle_history(ctx, W, L, ta, tb)
    # a replay reports under the recorded signature
    if len(ctx.failing) > before:
        ctx.failing[:] = ctx.failing[:before]
        ctx.fail(sig, inp, data.get("expected"), "still fails")
