"""C10 - second-quantised operators obey the fermionic algebra.

Also hosts the helpers shared by C11/C12 (operator generator, exact conversion to Coq terms,
independent numpy reference built from the property text)."""
import itertools, sys, os
from fractions import Fraction
import numpy as np
from vlib import coqterm as ct

sys.path.insert(0, os.path.join(os.path.dirname(os.path.dirname(os.path.abspath(__file__))), "gen"))

HEADER = "From Qib Require Import Fermi.FermiCheck.\nFrom Coq Require Import QArith.\n"

# ---------------------------------------------------------------------------------------------
# independent reference (from the property text): Jordan-Wigner matrices by np.kron with the
# sign string on the LATER sites, site 0 = most significant Kronecker factor
I2 = np.eye(2)
Z2 = np.diag([1.0, -1.0])
X2 = np.array([[0.0, 1.0], [1.0, 0.0]])
Y2 = np.array([[0.0, -1j], [1j, 0.0]])
LOWER = np.array([[0.0, 1.0], [0.0, 0.0]])     # |0><1| : annihilates an occupied site


def kron_all(ms):
    out = np.ones((1, 1), dtype=complex)
    for m in ms:
        out = np.kron(out, m)
    return out


def ref_lad(L, i, create):
    a = kron_all([I2] * i + [LOWER] + [Z2] * (L - i - 1))
    return a.conj().T if create else a


def ref_term_matrix(L, pat, coeffs, lad=None):
    """sum over multi-indices of coeff * ordered product"""
    lad = lad or (lambda i, c: ref_lad(L, i, c))
    M = np.zeros((2 ** L, 2 ** L), dtype=complex)
    for idx in itertools.product(range(L), repeat=len(pat)):
        c = coeffs[idx] if len(pat) else coeffs[()]
        if c == 0:
            continue
        P = np.eye(2 ** L, dtype=complex)
        for kind, j in zip(pat, idx):
            P = P @ lad(j, bool(kind))
        M += c * P
    return M


def ref_op_matrix(L, terms, lad=None):
    M = np.zeros((2 ** L, 2 ** L), dtype=complex)
    for pat, coeffs in terms:
        M += ref_term_matrix(L, pat, coeffs, lad)
    return M


def dense(a):
    if hasattr(a, "toarray"):
        a = a.toarray()
    return np.asarray(a, dtype=complex)


# ---------------------------------------------------------------------------------------------
# building implementation objects from plain descriptions
class World:
    def __init__(self):
        import qib
        self.qib = qib
        self.fields = {}

    def field(self, L):
        if L not in self.fields:
            latt = self.qib.lattice.IntegerLattice((L,), pbc=False)
            self.fields[L] = self.qib.field.Field(self.qib.field.ParticleType.FERMION, latt)
        return self.fields[L]

    def term(self, L, pat, coeffs):
        op = self.qib.operator
        f = self.field(L)
        return op.FieldOperatorTerm(
            [op.IFODesc(f, op.IFOType.FERMI_CREATE if k else op.IFOType.FERMI_ANNIHIL) for k in pat], coeffs)

    def op(self, L, terms):
        return self.qib.FieldOperator([self.term(L, p, c) for p, c in terms])

    def pat_of(self, term):
        T = self.qib.operator.IFOType
        out = []
        for d in term.opdesc:
            if d.otype == T.FERMI_CREATE:
                out.append(1)
            elif d.otype == T.FERMI_ANNIHIL:
                out.append(0)
            else:
                raise ValueError("non-fermionic operator type")
        return out

    def terms_of(self, fop):
        return [(self.pat_of(t), np.asarray(t.coeffs)) for t in fop.terms]


# description <-> JSON-able form (for samples / replay files)
def desc_terms(L, terms):
    return {"L": L, "terms": [{"pat": list(map(int, p)), "shape": list(np.shape(c)),
                               "coeffs": [[float(np.real(v)), float(np.imag(v))] for v in np.asarray(c).reshape(-1)]}
                              for p, c in terms]}


def undesc_terms(d):
    L = d["L"]
    terms = []
    for t in d["terms"]:
        flat = np.array([complex(a, b) for a, b in t["coeffs"]], dtype=complex)
        terms.append((t["pat"], flat.reshape(tuple(t["shape"]))))
    return L, terms


# ---------------------------------------------------------------------------------------------
# Coq term text (short literals: q0 = 0, qz a b = a + b i for integers, full rationals otherwise)
def qi(v):
    v = complex(v)
    if v == 0:
        return "q0"
    if v.real == int(v.real) and v.imag == int(v.imag):
        return "(qz %s %s)" % (ct.z(int(v.real)), ct.z(int(v.imag)))
    return ct.qi(v)


def qimat(m):
    return ct.lst([ct.lst([qi(c) for c in row]) for row in m])


def cterm(pat, coeffs):
    return ct.pair(ct.bits(pat), ct.lst([qi(v) for v in np.asarray(coeffs).reshape(-1)]))


def cop(terms):
    return ct.lst([cterm(p, c) for p, c in terms])


# ---------------------------------------------------------------------------------------------
# generators: exact (dyadic Gaussian) coefficient tensors
VALS = [1, -1, 2, -2, 0.5, -0.5, 1j, -1j, 1 + 1j, 1 - 2j, 0.5j, -1.5 + 0.5j, 3, 0.25, -0.75j, 2 - 1j]


def rand_coeffs(rng, L, k, style):
    shape = (L,) * k
    n = L ** k
    if style == "zero":
        flat = [0] * n
    elif style == "dense":
        flat = [rng.choice(VALS) for _ in range(n)]
    elif style == "sparse":
        flat = [rng.choice(VALS) if rng.random() < 0.25 else 0 for _ in range(n)]
    elif style == "single":
        flat = [0] * n
        flat[rng.randrange(n)] = rng.choice(VALS)
    elif style == "real-int":
        return np.array([rng.choice([0, 1, -1, 2, 3]) for _ in range(n)], dtype=int).reshape(shape)
    elif style == "real":
        return np.array([rng.choice([0, 0.5, -1.5, 2.0, 1.0]) for _ in range(n)], dtype=float).reshape(shape)
    else:
        raise ValueError(style)
    return np.array(flat, dtype=complex).reshape(shape)


STYLES = ["dense", "dense", "sparse", "sparse", "single", "zero", "real-int", "real"]


def rand_pat(rng, k):
    r = rng.random()
    if r < 0.15:
        return [1] * k
    if r < 0.3:
        return [0] * k
    return [rng.randint(0, 1) for _ in range(k)]


def rand_term(rng, L, kmax=4, budget=700):
    ks = [k for k in range(0, kmax + 1) if L ** k <= budget]
    k = rng.choice(ks)
    return rand_pat(rng, k), rand_coeffs(rng, L, k, rng.choice(STYLES))


def rand_terms(rng, L, nterms=None, kmax=4, budget=700, need_field=True):
    nterms = nterms or rng.choice([1, 1, 2, 2, 3])
    terms = [rand_term(rng, L, kmax, budget) for _ in range(nterms)]
    if need_field and all(len(p) == 0 for p, _ in terms):
        # FieldOperator.as_matrix needs at least one operator to find the field
        terms.append(([1, 0], rand_coeffs(rng, L, 2, "sparse")))
    return terms


def hermitian_like(rng, L, k2):
    """term with a symmetric pattern and (mostly) conjugate-symmetric coefficients"""
    half = [rng.randint(0, 1) for _ in range(k2)]
    pat = half + [1 - b for b in reversed(half)]
    c = rand_coeffs(rng, L, 2 * k2, rng.choice(["dense", "sparse"]))
    c = c + c.conj().T
    if rng.random() < 0.3 and c.size > 1:      # break the symmetry in one entry
        idx = tuple(rng.randrange(L) for _ in range(2 * k2))
        c[idx] += rng.choice([1, 1j, 0.5])
    return pat, c


def hermitian_like_odd(rng, L, k2):
    """odd pattern, symmetric except for the middle operator (never Hermitian as a pattern),
    with conjugate-symmetric coefficients"""
    half = [rng.randint(0, 1) for _ in range(k2)]
    pat = half + [rng.randint(0, 1)] + [1 - b for b in reversed(half)]
    c = rand_coeffs(rng, L, 2 * k2 + 1, "dense")
    return pat, c + c.conj().T


def special_terms(L):
    """cancellation-heavy inputs"""
    out = []
    eye = np.eye(L, dtype=complex)
    out.append(("a+a + aa+ (= L * identity)", [([1, 0], eye), ([0, 1], eye)]))
    anti = np.zeros((L, L), dtype=complex)
    sym = np.zeros((L, L), dtype=complex)
    for i in range(L):
        for j in range(L):
            if i < j:
                anti[i, j], anti[j, i] = (i + 1) + 0.5j * j, -((i + 1) + 0.5j * j)
            sym[i, j] = 1 + min(i, j) + 1j * max(i, j)
    out.append(("antisymmetric aa", [([0, 0], anti)]))
    out.append(("symmetric aa (= 0)", [([0, 0], sym)]))
    out.append(("symmetric a+a+ (= 0) plus number", [([1, 1], sym), ([1, 0], eye)]))
    full = np.ones((L, L), dtype=complex)
    out.append(("all-ones hopping both orders", [([1, 0], full), ([0, 1], full)]))
    return out


def nontrivial(terms):
    return any(len(p) > 0 and np.any(np.asarray(c) != 0) for p, c in terms)


# ---------------------------------------------------------------------------------------------
# oracles on the implementation (C10)
def impl_lad(W, L, i, create):
    """clist[i] / alist[i] observed through the public API"""
    e = np.zeros(L)
    e[i] = 1.0
    return dense(W.op(L, [([1 if create else 0], e)]).as_matrix())


def oracle_car(ctx, W, L, lad, prefix="lad", inp_extra=None):
    """CAR, vacuum, number operators for a family lad(i, create) of 2^L matrices"""
    d = 2 ** L
    A = [lad(i, False) for i in range(L)]
    C = [lad(i, True) for i in range(L)]
    vac = np.zeros(d)
    vac[0] = 1
    base = dict(inp_extra or {}, L=L)
    for i in range(L):
        if not np.array_equal(C[i], A[i].conj().T):
            ctx.fail(prefix + ":create-not-adjoint-of-annihil", dict(base, kind="car", i=i))
        if np.any(A[i] @ vac != 0):
            ctx.fail(prefix + ":annihilator-does-not-kill-empty-state", dict(base, kind="car", i=i))
        N = C[i] @ A[i]
        want = np.diag([float((b >> (L - 1 - i)) & 1) for b in range(d)])
        if not np.array_equal(N, np.diag(np.diag(N))):
            ctx.fail(prefix + ":number-operator-not-diagonal", dict(base, kind="car", i=i))
        elif prefix == "lad" and not np.array_equal(N, want):
            ctx.fail(prefix + ":number-operator-wrong-occupation", dict(base, kind="car", i=i))
        for j in range(L):
            ac = A[i] @ C[j] + C[j] @ A[i]
            if not np.array_equal(ac, np.eye(d) if i == j else np.zeros((d, d))):
                ctx.fail(prefix + ":CAR-annihil-create", dict(base, kind="car", i=i, j=j),
                         "{a_i, a_j^dag} = delta_ij", "differs")
            if np.any(A[i] @ A[j] + A[j] @ A[i] != 0) or np.any(C[i] @ C[j] + C[j] @ C[i] != 0):
                ctx.fail(prefix + ":CAR-same-kind", dict(base, kind="car", i=i, j=j), "{a_i, a_j} = 0", "differs")


def oracle_op(ctx, W, L, terms, what=("matrix", "adjoint")):
    """matrix = weighted sum of ordered products (reference); adjoint"""
    d = desc_terms(L, terms)
    fop = W.op(L, terms)
    M = dense(fop.as_matrix())
    R = ref_op_matrix(L, terms)
    if not np.array_equal(M, R):
        ctx.fail("as_matrix:not-weighted-sum-of-ordered-products", dict(d, kind="op"),
                 "sum coeff * ordered product of reference ladder matrices", "max diff %g" % np.abs(M - R).max())
    Ma = dense(fop.adjoint().as_matrix())
    if not np.array_equal(Ma, M.conj().T):
        ctx.fail("adjoint:matrix-not-adjoint", dict(d, kind="op"), "matrix(adjoint A) = matrix(A)^dagger",
                 "max diff %g" % np.abs(Ma - M.conj().T).max())
    return fop, M


def oracle_pair(ctx, W, L, ta, tb):
    d = {"kind": "pair", "a": desc_terms(L, ta), "b": desc_terms(L, tb)}
    A, B = W.op(L, ta), W.op(L, tb)
    MA, MB = dense(A.as_matrix()), dense(B.as_matrix())
    S = dense((A + B).as_matrix())
    if not np.array_equal(S, MA + MB):
        ctx.fail("add:matrix-not-sum", d, "matrix(A+B) = matrix(A) + matrix(B)", "max diff %g" % np.abs(S - MA - MB).max())
    P = dense((A @ B).as_matrix())
    if not np.array_equal(P, MA @ MB):
        ctx.fail("matmul:matrix-not-product", d, "matrix(A@B) = matrix(A) matrix(B)", "max diff %g" % np.abs(P - MA @ MB).max())
    return A, B


def oracle_herm(ctx, W, L, pat, coeffs):
    t = W.term(L, pat, coeffs)
    flag = bool(t.is_hermitian())
    if flag:
        M = dense(W.qib.FieldOperator([t]).as_matrix()) if len(pat) else None
        if M is not None and not np.array_equal(M, M.conj().T):
            ctx.fail("is_hermitian:flagged-but-matrix-not-hermitian", dict(desc_terms(L, [(pat, coeffs)]), kind="herm"),
                     "M = M^dagger", "max diff %g" % np.abs(M - M.conj().T).max())
    return flag


def run(ctx):
    import fermi as gen_fermi
    W = World()
    ctx.trusted.append("C10: the site matrices I,Z,U, the factor-selection rule of clist[i] and alist = clist^dagger are "
                       "regenerated from FieldOperator.as_matrix (gen/fermi.py); the loop over terms/coefficients "
                       "(np.nditer C order, skipping zero coefficients, fstring @ clist[j], op += coeff*fstring), "
                       "FieldOperatorTerm.adjoint/__matmul__, FieldOperator.__add__/__matmul__/adjoint and is_hermitian "
                       "are hand-modelled (Qib.Fermi.FermiModel) and tied by correspondence; "
                       "numpy semantics assumed: coeffs.conj().T reverses all axes, kron+reshape = outer product, "
                       "sparse.kron is associative, scipy.sparse arithmetic = dense arithmetic")
    ctx.assumes.append("coefficients are ring elements (exact arithmetic); np.allclose in is_hermitian is modelled by exact "
                       "equality (the code's flag is approximate: rtol 1e-5, atol 1e-8)")
    Lmax = 5
    ctx.rules.append("single fermionic field on L<=%d sites; operators with 1-3 terms, patterns of length 0-4 (incl. "
                     "all-create / all-annihilate), coefficient tensors dense / sparse / single-entry / all-zero / int / real, "
                     "entries dyadic Gaussian rationals; plus cancellation-heavy specials. non-trivial = distinct case "
                     "with at least one operator and a non-zero coefficient" % Lmax)
    ctx.lib(["Fermi/FermiCheck", "Fermi/FermiTerms"])
    ok = ctx.translate("GenFieldOp", gen_fermi.generate_fo)
    if ok:
        pok, _ = ctx.props()
        if pok and ctx.thorough:
            ctx.coqchk()
    else:
        ctx.oblige("props:C10", "theorem", False, "not compiled: translator failed")

    rng = ctx.rng
    cases = []

    def add(term, desc, nt=True):
        cases.append((term, desc))
        if nt:
            ctx.nontriv(desc)
        ctx.sample(desc)

    # ------------------------------------------------------------ ladder matrices, all L, i
    for L in range(1, Lmax + 1):
        try:
            oracle_car(ctx, W, L, lambda i, c: impl_lad(W, L, i, c))
        except Exception as e:
            ctx.fail("lad:exception", {"kind": "car", "L": L}, "ladder matrices", repr(e))
            continue
        for i in range(L):
            for create in (False, True):
                M = impl_lad(W, L, i, create)
                ctx.count("ladder_L=%d" % L)
                if not np.array_equal(M, ref_lad(L, i, create)):
                    ctx.fail("lad:not-reference-jordan-wigner-matrix", {"kind": "car", "L": L, "i": i},
                             "I..I (x) |1><0| (x) Z..Z with the sign string on later sites", "differs")
                if L <= 4 or (ctx.thorough or i in (0, L - 1)):
                    add("CLad %s %s %s %s" % (ct.nat(L), ct.nat(i), ct.b(create), qimat(M)),
                        {"kind": "ladder", "L": L, "i": i, "create": create})

    # ------------------------------------------------------------ operators
    ops = []
    nrand = 500 if ctx.thorough else 130
    for _ in range(nrand):
        L = rng.choice([1, 2, 2, 3, 3, 3, 4, 4, 5])
        ops.append((L, rand_terms(rng, L, budget=700 if L < 5 or ctx.thorough else 130)))
    for L in range(1, Lmax + 1):
        for name, terms in special_terms(L):
            ops.append((L, terms))
        # every pattern of length <= 3 once (length 4 in the thorough tier), sparse coefficients
        for k in range(1, 5 if ctx.thorough else 4):
            if L ** k > 700:
                continue
            for pat in itertools.product((0, 1), repeat=k):
                if L >= 4 and not ctx.thorough and rng.random() < 0.6:
                    continue
                ops.append((L, [(list(pat), rand_coeffs(rng, L, k, "sparse" if L ** k > 30 else "dense"))]))
    for L, terms in ops:
        ctx.count("op_L=%d" % L)
        for p, _ in terms:
            ctx.count("pattern_len=%d" % len(p))
        d = dict(desc_terms(L, terms), kind="op")
        try:
            fop, M = oracle_op(ctx, W, L, terms)
        except Exception as e:
            ctx.fail("as_matrix:exception", d, "matrix", repr(e))
            continue
        nt = nontrivial(terms)
        add("CMat %s %s %s" % (ct.nat(L), cop(terms), qimat(M)), dict(d, op="as_matrix"), nt)
        adj = W.terms_of(fop.adjoint())
        add("CAdj %s %s %s" % (ct.nat(L), cop(terms), cop(adj)), dict(d, op="adjoint"), nt)
        # the defining nested sums themselves, where they are cheap enough
        cost = sum((L ** len(p)) * (2 ** L) ** (max(len(p), 1) + 1) for p, _ in terms)
        if cost <= 40000:
            ctx.count("defining_sum_cases")
            add("CMatDef %s %s %s" % (ct.nat(L), cop(terms), qimat(M)), dict(d, op="as_matrix(definition)"), nt)

    ctx.log("operators done: %d cases" % len(cases))
    # ------------------------------------------------------------ sums and products
    npairs = 300 if ctx.thorough else 60
    for _ in range(npairs):
        L = rng.choice([1, 2, 2, 3, 3, 4])
        ta = rand_terms(rng, L, nterms=rng.choice([1, 2]), kmax=2, budget=100)
        tb = rand_terms(rng, L, nterms=rng.choice([1, 2]), kmax=2, budget=100)
        d = {"kind": "pair", "a": desc_terms(L, ta), "b": desc_terms(L, tb)}
        ctx.count("pair_L=%d" % L)
        try:
            A, B = oracle_pair(ctx, W, L, ta, tb)
        except Exception as e:
            ctx.fail("pair:exception", d, "sum/product", repr(e))
            continue
        nt = nontrivial(ta) and nontrivial(tb)
        add("CMul %s %s %s %s" % (ct.nat(L), cop(ta), cop(tb), cop(W.terms_of(A @ B))), dict(d, op="matmul"), nt)
        add("CAdd %s %s %s %s" % (ct.nat(L), cop(ta), cop(tb), cop(W.terms_of(A + B))), dict(d, op="add"), nt)

    # ------------------------------------------------------------ Hermitian flag
    nh = 400 if ctx.thorough else 90
    for _ in range(nh):
        L = rng.choice([1, 2, 2, 3, 3, 4])
        r = rng.random()
        if r < 0.6:
            k2 = rng.choice([0, 1, 1, 1, 2] if L <= 3 else [0, 1, 1])
            pat, c = hermitian_like(rng, L, k2)
        elif r < 0.8:
            pat, c = hermitian_like_odd(rng, L, rng.choice([0, 1]))
        else:
            pat, c = rand_term(rng, L, kmax=3, budget=100)
        d = dict(desc_terms(L, [(pat, c)]), kind="herm")
        try:
            flag = oracle_herm(ctx, W, L, pat, c)
        except Exception as e:
            ctx.fail("is_hermitian:exception", d, "flag", repr(e))
            continue
        ctx.count("herm_flag_%s" % flag)
        add("CHerm %s %s %s" % (ct.nat(L), cterm(pat, c), ct.b(flag)), dict(d, op="is_hermitian"), len(pat) > 0)
    # the flag is approximate (np.allclose): record one witness, not a violation
    L = 2
    c = np.array([[0, 1], [1 + 1e-9, 0]], dtype=complex)
    t = W.term(L, [1, 0], c)
    M = dense(W.qib.FieldOperator([t]).as_matrix())
    ctx.notes.append("is_hermitian uses np.allclose: coefficients [[0,1],[1+1e-9,0]] are flagged %s, |M-M^dagger|max = %.1e"
                     % (bool(t.is_hermitian()), np.abs(M - M.conj().T).max()))

    ctx.log("harness done: %d cases; evaluating the model in Coq" % len(cases))
    dis = ctx.cases("fermi", HEADER + "Definition dummy : encparams QI := {| ep_tab := jw_tab; ep_weight := fun _ c => c; ep_keepdim := false |}.\n"
                    "Definition bad_cases := fbad_cases dummy dummy 0%Q 0%Q.\n", cases, shard=50)
    for i, d in dis[:5]:
        ctx.log("model/impl disagree on", str(d)[:300])


def replay(ctx, data):
    W = World()
    inp, sig = data["input"], data["sig"]
    kind = inp.get("kind")
    before = len(ctx.failing)
    if kind == "car":
        L = inp["L"]
        oracle_car(ctx, W, L, lambda i, c: impl_lad(W, L, i, c))
        for i in range(L):
            for create in (False, True):
                if not np.array_equal(impl_lad(W, L, i, create), ref_lad(L, i, create)):
                    ctx.fail("lad:not-reference-jordan-wigner-matrix", inp)
    elif kind == "op":
        L, terms = undesc_terms(inp)
        oracle_op(ctx, W, L, terms)
    elif kind == "pair":
        L, ta = undesc_terms(inp["a"])
        _, tb = undesc_terms(inp["b"])
        oracle_pair(ctx, W, L, ta, tb)
    elif kind == "herm":
        L, terms = undesc_terms(inp)
        oracle_herm(ctx, W, L, *terms[0])
    # a replay reports under the recorded signature
    if len(ctx.failing) > before:
        ctx.failing[:] = ctx.failing[:before]
        ctx.fail(sig, inp, data.get("expected"), "still fails")
