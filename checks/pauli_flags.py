"""Pauli part of C01 (is_unitary claims) and C16 (is_hermitian claims): theorems in
coq/props/C01p.v / C16p.v, correspondence of the flags, oracles on the implementation."""
import os, sys
import numpy as np
from vlib import coqterm as ct
from vlib.core import COQ
from checks.C09 import p3, ref_matrix, dense, rand_p, HEADER


def run(ctx, pid):
    from qib.operator.pauli_operator import PauliString, WeightedPauliString, PauliOperator
    import pauli as gen_pauli
    assert pid in ("C01", "C16")
    ctx.lib(["Pauli/PauliCheck", "Pauli/PauliProofs3"])
    if not any(o["name"] == "translator:GenPauli" for o in ctx.obligations):
        # C01 additionally requires PauliOperator.is_unitary to be the NotImplementedError stub (fail closed)
        ctx.translate("GenPauli", (lambda: gen_pauli.generate(operator_unitary=True)) if pid == "C01" else gen_pauli.generate)
    if all(o["ok"] for o in ctx.obligations if o["name"] == "translator:GenPauli"):
        ctx.props(os.path.join(COQ, "props", pid + "p.v"))
    ctx.trusted.append("%s (Pauli part): the shapes of PauliString/WeightedPauliString.is_unitary/is_hermitian and "
                       "PauliOperator.is_hermitian are asserted by gen/pauli.py (fail-closed); abs(w)==1 and .imag==0 are "
                       "modelled as w*conj(w)=1 and self-conjugacy in an exact *-ring" % pid)
    ctx.rules.append("Pauli flags: random strings n<=4 x weights from {0,+-1,+-i,1+i,2,3-4i,...} and operators of 1-4 such strings; "
                     "non-trivial = non-identity string")
    rng = ctx.rng
    W = [1, -1, 1j, -1j, 0, 2, 1 + 1j, 3 - 4j, -2j, 1 - 1j]
    cases = []
    for _ in range(400 if ctx.thorough else 120):
        n = rng.randint(1, 4)
        a = rand_p(rng, n)
        w = rng.choice(W)
        ws = WeightedPauliString(PauliString(*a), w)
        M = dense(ws.as_matrix())
        desc = {"kind": "weighted", "a": a, "w": str(w)}
        ctx.count("weighted_n=%d" % n)
        if any(a[0]) or any(a[1]):
            ctx.nontriv(desc)
        ctx.sample(desc)
        if pid == "C16":
            fl = bool(ws.is_hermitian())
            cases.append(("CWHerm %s %s %s" % (p3(*a), ct.zi(w), ct.b(fl)), desc))
            herm = np.array_equal(M, M.conj().T)
            if fl and not herm:
                ctx.fail("weighted:is_hermitian-unsound", desc, "Hermitian matrix", "not Hermitian")
            if herm and not fl:
                ctx.fail("weighted:is_hermitian-incomplete", desc, "flag True (exactly representable phase)", "False")
            ps = PauliString(*a)
            P = dense(ps.as_matrix())
            if bool(ps.is_hermitian()) != np.array_equal(P, P.conj().T):
                ctx.fail("string:is_hermitian-inexact", desc)
        else:
            fl = bool(ws.is_unitary())
            cases.append(("CWUnit %s %s %s" % (p3(*a), ct.zi(w), ct.b(fl)), desc))
            uni = np.allclose(M @ M.conj().T, np.eye(len(M)), atol=1e-12)
            if fl and not uni:
                ctx.fail("weighted:is_unitary-unsound", desc, "unitary matrix", "not unitary")
            ps = PauliString(*a)
            P = dense(ps.as_matrix())
            cases.append(("CPUnit %s %s" % (p3(*a), ct.b(bool(ps.is_unitary()))), desc))
            if ps.is_unitary() and not np.array_equal(P @ P.conj().T, np.eye(len(P))):
                ctx.fail("string:is_unitary-unsound", desc)
    if pid == "C16":
        for _ in range(200 if ctx.thorough else 60):
            n = rng.randint(1, 3)
            items = [(rand_p(rng, n), rng.choice(W)) for _ in range(rng.randint(1, 4))]
            op = PauliOperator([WeightedPauliString(PauliString(*a), w) for a, w in items])
            fl = bool(op.is_hermitian())
            desc = {"kind": "operator", "items": [(a, str(w)) for a, w in items]}
            ctx.nontriv(desc)
            cases.append(("COpHerm %s %s" % (ct.lst([ct.pair(p3(*a), ct.zi(w)) for a, w in items]), ct.b(fl)), desc))
            M = dense(op.as_matrix())
            if fl and not np.array_equal(M, M.conj().T):
                ctx.fail("operator:is_hermitian-unsound", desc)
    ctx.cases("pauliflags", HEADER, cases)
    operator_flags(ctx, pid)


# =============================================================================== every operator class, by introspection
TOLF = 1e-9


def _field(kind, n, layered=False):
    import qib
    pt = qib.field.ParticleType.FERMION if kind == "fermi" else qib.field.ParticleType.QUBIT
    lat = qib.lattice.IntegerLattice((n,), pbc=False)
    if layered:
        lat = qib.lattice.LayeredLattice(lat, 2)
    return qib.field.Field(pt, lat)


def build_operator(d):
    """spec -> (object whose flag is asked, object whose as_matrix() is the matrix)"""
    import qib
    from qib.operator import (PauliString, WeightedPauliString, PauliOperator, FieldOperator, FieldOperatorTerm, IFODesc, IFOType,
                              IsingHamiltonian, HeisenbergHamiltonian, FermiHubbardHamiltonian, MolecularHamiltonian,
                              MolecularHamiltonianSymmetry)
    c = d["cls"]
    cx = lambda w: complex(w[0], w[1])
    if "typed" in d:
        return build_typed_operator(d)
    if c == "PauliString":
        o = PauliString(*d["p"])
        return o, o
    if c == "WeightedPauliString":
        o = WeightedPauliString(PauliString(*d["p"]), cx(d["w"]))
        return o, o
    if c == "PauliOperator":
        items = [WeightedPauliString(PauliString(*p), cx(w)) for p, w in d["items"]]
        if "base" in d:                                  # a model Hamiltonian's own Pauli operator, extended string by string
            b = d["base"]
            f = _field("qubit", b["n"])
            ham = (IsingHamiltonian(f, b["J"], b["h"], b["g"]) if b["r"] == "ising" else HeisenbergHamiltonian(f, b["J"], b["h"]))
            o = ham.as_pauli_operator()
        elif d.get("via") == "add":
            o = PauliOperator()
        else:
            o = PauliOperator(items)
            return o, o
        for it in items:
            o.add_pauli_string(it)
        return o, o
    if c == "FieldOperator" and "fexpr" in d:
        from checks import C10
        o = fexpr_build(C10.World(), d["L"], d["fexpr"])
        return o, o
    if c in ("FieldOperator", "FieldOperatorTerm") and "fterms" in d:
        # general operator patterns (any length, incl. odd, all-create, all-annihilate): builders of checks/C10.py
        from checks import C10
        L, terms = C10.undesc_terms(d["fterms"])
        W = C10.World()
        ts = [W.term(L, pat, co) for pat, co in terms]
        op = FieldOperator(ts)
        return (ts[0] if c == "FieldOperatorTerm" else op), op
    if c in ("FieldOperator", "FieldOperatorTerm"):
        f = _field("fermi", d["n"])
        co = np.array([[cx(w) for w in row] for row in d["coeffs"]])
        term = FieldOperatorTerm([IFODesc(f, IFOType.FERMI_CREATE), IFODesc(f, IFOType.FERMI_ANNIHIL)], co)
        op = FieldOperator([term])
        return (term if c == "FieldOperatorTerm" else op), op
    if c == "IsingHamiltonian":
        o = IsingHamiltonian(_field("qubit", d["n"]), d["J"], d["h"], d["g"])
        return o, o
    if c == "HeisenbergHamiltonian":
        o = HeisenbergHamiltonian(_field("qubit", d["n"]), d["J"], d["h"])
        return o, o
    if c == "FermiHubbardHamiltonian":
        o = FermiHubbardHamiltonian(_field("fermi", d["n"], layered=d["spin"]), float(d["t"]), float(d["u"]), d["spin"])
        return o, o
    if c == "MolecularHamiltonian":
        n = d["n"]
        tk = np.array([[cx(w) for w in row] for row in d["tkin"]])
        symm = MolecularHamiltonianSymmetry.HERMITIAN if d["herm"] else MolecularHamiltonianSymmetry(0)
        o = MolecularHamiltonian(_field("fermi", n), d["c"], tk, np.zeros((n, n, n, n)), symm)
        return o, o
    raise KeyError(c)


def operator_instances(rng, thorough):
    """instances per non-gate operator class; Pauli operators: complex relative phases, phase carried by the string (q) vs by
    the weight, pairwise anti-commuting normalised mixtures, commuting and non-commuting mixtures, zero weights"""
    s = 1 / np.sqrt(2)
    X, Y, Z, I1 = ([0], [1]), ([1], [1]), ([1], [0]), ([0], [0])       # (z, x) of one site; Y as a letter has q = 1

    def P(zx, q=0):
        return [list(zx[0]), list(zx[1]), q]
    fixed = [
        [[P(X), [s, 0]], [P(Z), [s, 0]]],                   # (X + Z)/sqrt2: unitary, Hermitian
        [[P(X), [s, 0]], [P(Y, 1), [0, s]]],                # (X + iY)/sqrt2 = sqrt2 |0><1|: NOT unitary
        [[P(X), [s, 0]], [P(Y, 2), [s, 0]]],                # the same relative phase carried by the string: X + (-i)^2... q = 2
        [[P(X), [s, 0]], [P(Y, 0), [s, 0]]],                # q = 0: Z X-type string (iY up to phase), relative phase i through q
        [[P(X), [0.6, 0]], [P(Y, 1), [0.8, 0]]],            # 0.6 X + 0.8 Y: unitary
        [[P(X), [0.6, 0]], [P(Y, 1), [0, 0.8]]],            # 0.6 X + 0.8 i Y: not unitary
        [[P(X), [0.6, 0]], [P(Z), [0.8 * s, 0.8 * s]]],     # complex relative phase e^{i pi/4}
        [[P(X), [s, 0]], [P(X), [s, 0]]],                   # commuting (equal) strings
        [[P(X), [1, 0]]], [[P(Y, 1), [0, 1]]], [[P(Z), [0, 0]], [P(X), [1, 0]]],   # single strings, a zero weight
        [[P(([0, 0], [1, 0])), [s, 0]], [P(([1, 0], [1, 0]), 1), [0, s]]],       # two sites: X1 + i Y1
        [[P(([0, 0], [1, 1])), [0.5, 0]], [P(([1, 1], [0, 0])), [0.5, 0]], [P(([1, 1], [1, 1]), 2), [s, 0]]],  # XX, ZZ, YY commute
        [[P(([0, 0], [1, 0])), [s, 0]], [P(([1, 0], [0, 0])), [0, -s]]],         # X1 - i Z1
    ]
    out = [{"cls": "PauliOperator", "items": it} for it in fixed]
    W = [[1, 0], [-1, 0], [0, 1], [0, -1], [s, s], [s, -s], [0.6, 0.8], [0, 0], [2, 0], [0.5, 0.5]]
    for _ in range(200 if thorough else 60):
        n = rng.randint(1, 3)
        k = rng.randint(1, 3)
        items = []
        for _ in range(k):
            z = [rng.randint(0, 1) for _ in range(n)]
            x = [rng.randint(0, 1) for _ in range(n)]
            items.append([[z, x, rng.randint(0, 3)], list(rng.choice(W))])
        if rng.random() < 0.5:                  # normalise sum |w|^2 to 1 so that a norm-based criterion fires
            nrm = np.sqrt(sum(w[0] ** 2 + w[1] ** 2 for _, w in items))
            if nrm > 0:
                items = [[p, [w[0] / nrm, w[1] / nrm]] for p, w in items]
        out.append({"cls": "PauliOperator", "items": items})
        out.append({"cls": "WeightedPauliString", "p": items[0][0], "w": items[0][1]})
        out.append({"cls": "PauliString", "p": items[0][0]})
    out += field_term_instances(rng, thorough)
    out += multi_term_instances(rng, thorough)
    for _ in range(12 if thorough else 4):
        n = rng.randint(1, 3)
        a = [[complex(round(rng.uniform(-1, 1), 3), round(rng.uniform(-1, 1), 3)) for _ in range(n)] for _ in range(n)]
        herm = [[(a[i][j] + a[j][i].conjugate()) / 2 for j in range(n)] for i in range(n)]
        for m in (herm, a):
            co = [[[c.real, c.imag] for c in row] for row in m]
            out.append({"cls": "FieldOperator", "n": n, "coeffs": co})
            out.append({"cls": "FieldOperatorTerm", "n": n, "coeffs": co})
        out.append({"cls": "MolecularHamiltonian", "n": n, "c": round(rng.uniform(-1, 1), 3), "herm": True,
                    "tkin": [[[c.real, c.imag] for c in row] for row in herm]})
        out.append({"cls": "MolecularHamiltonian", "n": n, "c": 0.5, "herm": False, "tkin": [[[c.real, c.imag] for c in row] for row in a]})
        out.append({"cls": "IsingHamiltonian", "n": rng.randint(2, 3), "J": round(rng.uniform(-1, 1), 3), "h": round(rng.uniform(-1, 1), 3),
                    "g": round(rng.uniform(-1, 1), 3)})
        out.append({"cls": "HeisenbergHamiltonian", "n": rng.randint(2, 3), "J": [round(rng.uniform(-1, 1), 3) for _ in range(3)],
                    "h": [round(rng.uniform(-1, 1), 3) for _ in range(3)]})
        out.append({"cls": "FermiHubbardHamiltonian", "n": 2, "t": round(rng.uniform(-1, 1), 3), "u": round(rng.uniform(-1, 1), 3),
                    "spin": rng.random() < 0.5})
    return out


def field_term_instances(rng, thorough):
    """FieldOperatorTerm / FieldOperator over general operator patterns: lengths 1-4 incl. ODD lengths whose outer descriptors
    pair up as adjoints, all-create / all-annihilate, palindromic-adjoint patterns; coefficient tensors that are real /
    conjugate-symmetric under reversal of all axes (what the flag tests) as well as generic ones"""
    from checks import C10
    out = []

    def add(L, terms, cls="FieldOperatorTerm"):
        out.append({"cls": cls, "fterms": C10.desc_terms(L, terms)})
    for L in (1, 2, 3):
        ones1 = np.ones((L,))
        add(L, [([1], ones1)])                                   # a single a^dag, real coefficients
        add(L, [([0], np.arange(1, L + 1, dtype=float))])        # a single a
        add(L, [([1, 1], np.ones((L, L)) - np.eye(L))])          # all-create, symmetric real
        add(L, [([0, 0], np.triu(np.ones((L, L)), 1) - np.tril(np.ones((L, L)), -1))])   # all-annihilate, antisymmetric
        add(L, [([1, 0], np.eye(L))])                            # number operator (Hermitian)
        add(L, [([1, 0], 1j * np.eye(L))])                       # anti-Hermitian
        if L <= 2:
            c3 = np.ones((L, L, L))
            add(L, [([1, 1, 0], c3)])                            # odd, outer pair adjoint, real symmetric tensor
            add(L, [([1, 0, 0], c3)])
            add(L, [([0, 1, 1], c3)])
    for _ in range(60 if thorough else 16):
        L = rng.randint(1, 3)
        k2 = rng.randint(0, 1 if L == 3 else 2)
        if L ** (2 * k2 + 1) <= 64:
            add(L, [C10.hermitian_like_odd(rng, L, k2)])
        if k2 >= 1 and L ** (2 * k2) <= 81:
            add(L, [C10.hermitian_like(rng, L, k2)])
        t = C10.rand_term(rng, L, kmax=3, budget=64)
        if len(t[0]) >= 1:
            add(L, [t])
        # operators of several terms (the flag of FieldOperator is derived from its terms)
        ts = [C10.hermitian_like(rng, L, 1), C10.hermitian_like_odd(rng, L, 0)]
        add(L, ts[:rng.randint(1, 2)], cls="FieldOperator")
    return out


# =============================================================================== operator-level flags of MULTI-term operators
# The flag of a FieldOperator / PauliOperator is DERIVED from its terms.  A rule that looks at the terms one by one (or in pairs)
# must get the multiplicities right: [A, A^dagger] is Hermitian, [A, A^dagger, A] = 2A + A^dagger is not, although every term
# "has its adjoint among the others".  So the oracle "claims True => matrix Hermitian" runs on operators made by the library's
# own +, @, adjoint(), sum() with repeated operands, unbalanced multiplicities, terms that are each other's adjoints (exactly,
# with another factor, conjugated but not transposed), cancelling terms, and on the operators model Hamiltonians hand out.
def fexpr_build(W, L, e):
    """expression (JSON) -> FieldOperator on the ONE fermionic field W.field(L), through the public API only"""
    from checks import C10
    from qib.operator import FermiHubbardHamiltonian, MolecularHamiltonian, MolecularHamiltonianSymmetry
    o = e["op"]
    if o == "leaf":
        _, terms = C10.undesc_terms(e["fterms"])
        return W.op(L, terms)
    if o == "adjoint":
        return fexpr_build(W, L, e["x"]).adjoint()
    if o == "add":
        return fexpr_build(W, L, e["x"]) + fexpr_build(W, L, e["y"])
    if o == "matmul":
        return fexpr_build(W, L, e["x"]) @ fexpr_build(W, L, e["y"])
    if o == "sum":                                       # Python's sum(): 0 + x0 + x1 + ... (__radd__, then __add__)
        return sum(fexpr_build(W, L, x) for x in e["xs"])
    if o == "fh":                                        # what a model Hamiltonian hands out (spinless, on the chain of L sites)
        return FermiHubbardHamiltonian(W.field(L), float(e["t"]), float(e["u"]), False).as_field_operator()
    if o == "mol":
        tk = np.array([[complex(*w) for w in row] for row in e["tkin"]])
        symm = MolecularHamiltonianSymmetry.HERMITIAN if e.get("herm", True) else MolecularHamiltonianSymmetry(0)
        return MolecularHamiltonian(W.field(L), e["c"], tk, np.zeros((L,) * 4), symm).as_field_operator()
    raise ValueError(o)


def fexpr_shape(e):
    o = e["op"]
    if o == "leaf":
        return e.get("name", "T")
    if o == "adjoint":
        return fexpr_shape(e["x"]) + "^"
    if o in ("add", "matmul"):
        return "(%s%s%s)" % (fexpr_shape(e["x"]), "+" if o == "add" else "@", fexpr_shape(e["y"]))
    if o == "sum":
        return "sum[%s]" % ",".join(fexpr_shape(x) for x in e["xs"])
    return o


def multi_term_instances(rng, thorough):
    from checks import C10
    out = []

    def leaf(L, name, terms):
        return {"op": "leaf", "name": name, "fterms": C10.desc_terms(L, terms)}
    adj = lambda x: {"op": "adjoint", "x": x}
    add = lambda x, y: {"op": "add", "x": x, "y": y}
    mm = lambda x, y: {"op": "matmul", "x": x, "y": y}

    def chain(xs, how):
        if how == "sum":
            return {"op": "sum", "xs": list(xs)}
        e = xs[0]
        if how == "left":
            for x in xs[1:]:
                e = add(e, x)
            return e
        e = xs[-1]                                       # right-nested: x0 + (x1 + (x2 + ...))
        for x in reversed(xs[:-1]):
            e = add(x, e)
        return e

    def emit(L, e):
        out.append({"cls": "FieldOperator", "L": L, "fexpr": e, "shape": fexpr_shape(e)})
    for L in (2, 3):
        D = np.zeros((L, L), dtype=complex)
        for i in range(L):
            for j in range(i + 1, L):
                D[i, j], D[j, i] = (i + 1) + 0.5j * (j + 1), -((i + 1) + 0.5j * (j + 1))
        up = np.triu(np.arange(1, L * L + 1).reshape(L, L) * (1 + 0.25j), 1)
        herm = np.diag(np.arange(1.0, L + 1)) + up + up.conj().T
        v1 = np.array([1 + 0.5j * k for k in range(L)])
        As = [("P", [([0, 0], D)]),                                  # superconducting pairing term sum D_jk a_j a_k
              ("U", [([1, 0], up)]),                                 # upper-triangular hopping
              ("C", [([1], v1)]),                                    # odd: a single creation operator
              ("J", [([1, 0], 1j * np.eye(L))]),                     # anti-Hermitian: J + J^dagger = 0
              ("PU", [([0, 0], D), ([1, 0], up)])]                   # an operand of two terms
        if L == 2:
            As.append(("Q", [([1, 1, 0], np.arange(1, 9).reshape(2, 2, 2) * (1 - 0.5j))]))
        N = leaf(L, "N", [([1, 0], herm)])
        for k, (nm, terms) in enumerate(As):
            A = leaf(L, nm, terms)
            A2 = leaf(L, "2" + nm, [(p, 2 * c) for p, c in terms])                   # the same operator pattern, other factor
            Am = leaf(L, "-" + nm, [(p, -c) for p, c in terms])
            Ac = leaf(L, nm + "*", [(p, np.conj(c)) for p, c in terms])              # conjugated, NOT transposed / reversed
            B = leaf(L, "B", [([0, 0], 1j * D)] if nm != "P" else [([1, 0], up)])
            for how in ("left", "right", "sum"):
                emit(L, chain([A, adj(A), A], how))                                  # 2A + A^dagger
                emit(L, chain([A, adj(A), adj(A)], how))
                emit(L, chain([adj(A), A, A, adj(A), A], how))
                emit(L, chain([A, adj(A)], how))                                     # balanced: Hermitian
                emit(L, chain([A, A, adj(A), adj(A)], how))                          # balanced with multiplicity 2
            emit(L, add(chain([N, A, adj(A)], "left"), A))                           # H1 + H2, H1 Hermitian, H2 = A
            emit(L, add(A, chain([N, adj(A), A], "sum")))
            emit(L, add(A, adj(A2)))                                                 # A + 2 A^dagger
            emit(L, chain([A, adj(A), A2], "left"))
            emit(L, chain([A2, adj(A), adj(A)], "left"))                             # 2A + 2A^dagger as [2A, A^, A^]: Hermitian
            emit(L, add(A, Am))                                                      # cancels to zero
            emit(L, chain([A, adj(A), Am], "left"))                                  # = A^dagger
            emit(L, chain([A, adj(A), Am, adj(Am)], "sum"))                          # = 0
            emit(L, add(A, Ac))
            emit(L, chain([A, adj(A), Ac], "left"))
            emit(L, chain([A, adj(A), B, adj(B), B], "left"))
            emit(L, adj(chain([A, adj(A), A], "left")))
            emit(L, add(add(A, adj(A)), adj(add(A, adj(A)))))                        # (A + A^) + (A + A^)^
            emit(L, add(adj(adj(A)), chain([adj(A), adj(adj(A))], "left")))
            if L == 2 and nm in ("P", "U", "C"):
                S = add(A, adj(A))
                emit(L, mm(S, S))                                                    # square of a Hermitian operator
                emit(L, mm(S, add(B, adj(B))))                                       # product of two Hermitian ones: not Hermitian
                AB = mm(A, B)
                emit(L, chain([AB, adj(AB), AB], "left"))
                emit(L, chain([AB, adj(AB)], "left"))
                emit(L, add(mm(A, adj(A)), mm(A, adj(A))))                           # A A^ twice: every term Hermitian
                emit(L, chain([mm(A, adj(A)), mm(adj(A), A), mm(A, A)], "left"))
            # the multi-term operators model Hamiltonians hand out, plus unbalanced pairing terms
            fh = {"op": "fh", "t": 1.0, "u": 0.5}
            mol = {"op": "mol", "c": 0.25, "tkin": [[[float(np.real(v)), float(np.imag(v))] for v in row] for row in herm]}
            for Hm in ((fh, mol) if k < 2 or thorough else (fh, mol)[k % 2:k % 2 + 1]):
                emit(L, chain([Hm, A, adj(A), A], "left"))
                emit(L, chain([Hm, A, adj(A)], "sum"))
                emit(L, add(Hm, Hm))
    # random multisets over {A, A^, B, B^, N, -A, 2A}
    for _ in range(120 if thorough else 30):
        L = 2
        ta = C10.rand_term(rng, L, kmax=3, budget=16)
        while len(ta[0]) < 1:
            ta = C10.rand_term(rng, L, kmax=3, budget=16)
        tb = C10.hermitian_like_odd(rng, L, rng.randint(0, 1))
        A, B = leaf(L, "A", [ta]), leaf(L, "B", [tb])
        N = leaf(L, "N", [C10.hermitian_like(rng, L, 1)])
        pool = [A, adj(A), A, adj(A), B, adj(B), N, leaf(L, "-A", [(ta[0], -ta[1])]), leaf(L, "2A", [(ta[0], 2 * ta[1])])]
        xs = [rng.choice(pool) for _ in range(rng.randint(2, 6))]
        emit(L, chain(xs, rng.choice(["left", "right", "sum"])))
    # Pauli operators: repeated strings, weights that are each other's conjugates / negatives, unbalanced; listed and merged
    X, Y1, Y0, ZX, XI = [[0], [1], 0], [[1], [1], 1], [[1], [1], 0], [[1, 0], [0, 1], 0], [[0, 0], [1, 0], 0]
    Q1, Q2 = [[1], [0], 0], [[1, 1], [0, 0], 0]
    for P, Q in ((X, Q1), (Y1, Q1), (Y0, Q1), (ZX, Q2), (XI, Q2)):
        for w in ([0, 1], [1, 1], [0.5, -0.25]):
            wc, wm, wmc = [w[0], -w[1]], [-w[0], -w[1]], [-w[0], w[1]]
            for items in ([[P, w], [P, wc], [P, w]], [[P, w], [P, wc]], [[P, w], [P, wm], [P, w]], [[P, w], [P, wmc], [P, w]],
                          [[P, w], [P, wc], [Q, [1, 0]]], [[Q, [1, 0]], [P, w], [Q, [1, 0]], [P, wc], [P, w]],
                          [[P, w], [P, wc], [P, wc], [P, w], [P, w]]):
                for via in ("list", "add"):
                    out.append({"cls": "PauliOperator", "items": [[list(map(list, p[:2])) + [p[2]], list(v)] for p, v in items], "via": via})
    for base in ({"r": "ising", "n": 2, "J": 1.0, "h": 0.5, "g": -0.25}, {"r": "heis", "n": 2, "J": [1.0, -0.5, 2.0], "h": [0.25, 1.0, -0.75]}):
        for items in ([[XI, [0, 1]], [XI, [0, -1]], [XI, [0, 1]]], [[ZX, [1, 1]], [ZX, [1, -1]]], [[Q2, [0, 0.5]]], [[XI, [0, 1]], [XI, [0, -1]]]):
            out.append({"cls": "PauliOperator", "base": base, "items": [[list(map(list, p[:2])) + [p[2]], list(v)] for p, v in items]})
    return out


# =============================================================================== parameter TYPES
# A realness guard written as an isinstance test decides by the TYPE of the value, the flag speaks about the VALUE.
# Every scalar / array parameter of every class with a Hermiticity flag or realness guard is given in every type a
# caller may plausibly hand in; the class either refuses (no claim) or its claim must hold of the matrix.
PTYPES = ["int", "float", "bool", "complex", "complex-real", "Fraction",
          "np.float16", "np.float32", "np.float64", "np.longdouble", "np.complex64", "np.complex128", "np.clongdouble",
          "np.int8", "np.int32", "np.int64", "np.uint8", "np.bool_",
          "0d-float64", "0d-complex128", "0d-complex64", "0d-int64", "1elem-complex128"]
ARRAY_DTYPES = ["complex128", "complex64", "float64", "float32", "float16", "int64", "int8", "bool", "object"]


def typed_value(ptype, re, im):
    """the value re + i im (im dropped by the real types, truncated / made boolean by the integer / bool types)"""
    from fractions import Fraction
    z = complex(re, im)
    if ptype == "int":
        return int(re)
    if ptype == "float":
        return float(re)
    if ptype == "bool":
        return bool(re)
    if ptype == "complex":
        return z
    if ptype == "complex-real":
        return complex(re, 0.0)
    if ptype == "Fraction":
        return Fraction(re)
    if ptype.startswith("np."):
        t = getattr(np, ptype[3:])
        if np.issubdtype(t, np.complexfloating):
            return t(z)
        if np.issubdtype(t, np.floating):
            return t(re)
        return t(int(re)) if t is not np.bool_ else np.bool_(bool(re))
    if ptype.startswith("0d-"):
        dt = np.dtype(ptype[3:])
        return np.array(z if dt.kind == "c" else (re if dt.kind == "f" else int(re)), dtype=dt)
    if ptype == "1elem-complex128":
        return np.array([z])
    raise KeyError(ptype)


def typed_array(a, dtype):
    """the complex array `a` handed over with another dtype (real part for the real dtypes)"""
    a = np.asarray(a, dtype=complex)
    dt = np.dtype(dtype)
    if dt.kind == "c":
        return a.astype(dt)
    if dt.kind == "O":
        return a.astype(object)
    if dt.kind == "b":
        return a.real != 0
    return np.rint(a.real).astype(dt) if dt.kind in "iu" else a.real.astype(dt)


def build_typed_operator(d):
    """d["typed"] = {"slot", "ptype" | "dtype", "re", "im"}: the named parameter is given with that type"""
    import qib
    from qib.operator import (PauliString, WeightedPauliString, PauliOperator, FieldOperator, FieldOperatorTerm, IFODesc, IFOType,
                              IsingHamiltonian, HeisenbergHamiltonian, FermiHubbardHamiltonian, MolecularHamiltonian,
                              MolecularHamiltonianSymmetry)
    c, t = d["cls"], d["typed"]
    slot = t["slot"]
    v = typed_value(t["ptype"], t["re"], t["im"]) if "ptype" in t else None
    if c == "IsingHamiltonian":
        par = {"J": 1.0, "h": 0.5, "g": -0.25}
        par[slot] = v
        o = IsingHamiltonian(_field("qubit", d["n"]), par["J"], par["h"], par["g"])
        return o, o
    if c == "HeisenbergHamiltonian":
        J, h = [1.0, -0.5, 2.0], [0.25, 1.0, -0.75]
        if slot in ("J", "h"):                           # the whole vector as an array of that dtype
            vec = typed_array([complex(t["re"], t["im"]), 0.5, -1.0], t["dtype"])
            J, h = (vec, h) if slot == "J" else (J, vec)
        else:
            (J if slot[0] == "J" else h)[int(slot[1])] = v
        o = HeisenbergHamiltonian(_field("qubit", d["n"]), J, h)
        return o, o
    if c == "FermiHubbardHamiltonian":
        par = {"t": 1.0, "u": 0.5}
        par[slot] = v
        o = FermiHubbardHamiltonian(_field("fermi", 2, layered=d["spin"]), par["t"], par["u"], d["spin"])
        return o, o
    if c == "MolecularHamiltonian":
        n = d["n"]
        tk = np.array([[0.5 * (i + j) + 0.25j * (i - j) for j in range(n)] for i in range(n)])      # Hermitian
        vi = np.zeros((n, n, n, n), dtype=complex)
        for i in range(n):
            for j in range(n):
                vi[i, j, i, j] = 0.5 + 0.25 * (i + j)          # <ij|ij> real: Hermitian and variable-interchange symmetric
        cc = 0.5
        if slot == "c":
            cc = v
        elif slot == "tkin":
            if t.get("nonherm"):
                tk = tk + np.triu(np.full((n, n), complex(t["re"], t["im"])), 1)
            tk = typed_array(tk, t["dtype"])
        elif slot == "vint":
            if t.get("nonherm") and n >= 2:
                vi[0, 1, 1, 0] += complex(t["re"], t["im"])
            vi = typed_array(vi, t["dtype"])
        symm = MolecularHamiltonianSymmetry.HERMITIAN if d["herm"] else MolecularHamiltonianSymmetry(0)
        o = MolecularHamiltonian(_field("fermi", n), cc, tk, vi, symm)
        return o, o
    if c == "WeightedPauliString":
        o = WeightedPauliString(PauliString(*d["p"]), v)
        return o, o
    if c == "PauliOperator":
        o = PauliOperator([WeightedPauliString(PauliString(*d["p0"]), 0.5), WeightedPauliString(PauliString(*d["p"]), v)])
        return o, o
    if c in ("FieldOperator", "FieldOperatorTerm"):
        n = d["n"]
        f = _field("fermi", n)
        num = [IFODesc(f, IFOType.FERMI_CREATE), IFODesc(f, IFOType.FERMI_ANNIHIL)]
        if slot == "const":                              # the constant term of an operator (no ladder operators)
            term = FieldOperatorTerm([], np.array(v))
            op = FieldOperator([term, FieldOperatorTerm(num, np.eye(n))])
        else:
            herm = np.array([[1.0 + i if i == j else 0.5 + 0.25j * (i - j) for j in range(n)] for i in range(n)])
            if slot == "scalar":                         # Hermitian matrix times a typed scalar
                co = herm * v
            else:                                        # "coeffs": the coefficient array itself in that dtype
                if t.get("nonherm"):
                    herm = herm + np.triu(np.full((n, n), complex(t["re"], t["im"])), 1)
                co = typed_array(herm, t["dtype"])
            term = FieldOperatorTerm(num, co)
            op = FieldOperator([term])
        return (term if c == "FieldOperatorTerm" else op), op
    if c == "GeneralGate":
        mats = {"X": [[0, 1], [1, 0]], "Z": [[1, 0], [0, -1]], "iY": [[0, 1], [-1, 0]], "S": [[1, 0], [0, 1j]], "iX": [[0, 1j], [1j, 0]],
                "I": [[1, 0], [0, 1]]}
        o = qib.GeneralGate(typed_array(mats[d["mat"]], t["dtype"]), 1)
        return o, o
    raise KeyError(c)


def typed_instances(rng, thorough):
    out = []
    vals = [(0.5, 0.25), (2.0, 1.0), (1.0, 1e-3)]

    def scal(cls, slot, **kw):
        for pt in PTYPES:
            for re, im in (vals if thorough else vals[:2]):
                out.append(dict({"cls": cls, "typed": {"slot": slot, "ptype": pt, "re": re, "im": im}}, **kw))

    def arr(cls, slot, nonherm=(False, True), **kw):
        for dt in ARRAY_DTYPES:
            for nh in nonherm:
                re, im = rng.choice(vals[:2])
                out.append(dict({"cls": cls, "typed": {"slot": slot, "dtype": dt, "re": re, "im": im, "nonherm": nh}}, **kw))
    for slot in ("J", "h", "g"):
        scal("IsingHamiltonian", slot, n=2)
    for slot in ("J0", "J1", "J2", "h0", "h1", "h2"):
        scal("HeisenbergHamiltonian", slot, n=2)
    arr("HeisenbergHamiltonian", "J", nonherm=(False,), n=2)
    arr("HeisenbergHamiltonian", "h", nonherm=(False,), n=2)
    for slot in ("t", "u"):
        scal("FermiHubbardHamiltonian", slot, spin=False)
        scal("FermiHubbardHamiltonian", slot, spin=True)
    scal("MolecularHamiltonian", "c", n=2, herm=True)
    scal("MolecularHamiltonian", "c", n=1, herm=True)
    scal("MolecularHamiltonian", "c", n=2, herm=False)
    arr("MolecularHamiltonian", "tkin", n=2, herm=True)
    arr("MolecularHamiltonian", "vint", n=2, herm=True)
    X, Y, Z, YY = [[0], [1], 0], [[1], [1], 1], [[1], [0], 0], [[1], [1], 0]
    for p in (X, Y, YY, [[1, 0], [1, 1], 3]):
        scal("WeightedPauliString", "weight", p=p)
    scal("PauliOperator", "weight", p0=X, p=Z)
    scal("PauliOperator", "weight", p0=Z, p=YY)
    for cls in ("FieldOperatorTerm", "FieldOperator"):
        scal(cls, "const", n=2)
        scal(cls, "scalar", n=2)
        arr(cls, "coeffs", n=2)
    for m in ("X", "Z", "I", "iY", "S", "iX"):
        arr("GeneralGate", "mat", nonherm=(False,), mat=m)
    return out


def check_operator_flag(ctx, pid, d):
    """claim true => the matrix has the claimed property (the claim may also raise NotImplementedError: no claim)"""
    method = "is_unitary" if pid == "C01" else "is_hermitian"
    try:
        obj, mobj = build_operator(d)
    except Exception as e:
        ctx.count("operator_flags:not-constructible:" + d["cls"])
        return None
    fn = getattr(obj, method, None)
    if fn is None:
        return None
    try:
        claim = bool(fn())
    except NotImplementedError:
        ctx.count("operator_flags:%s.%s:raises" % (d["cls"], method))
        return None
    ctx.count("operator_flags:%s.%s:%s" % (d["cls"], method, claim))
    if claim:
        try:
            M = dense(mobj.as_matrix())
        except Exception:
            if "typed" not in d:
                raise
            ctx.count("operator_flags:typed:claims-true-but-no-matrix:" + d["cls"])      # nothing to compare the claim with
            return claim
        dev = float(np.abs(M @ M.conj().T - np.eye(len(M))).max()) if pid == "C01" else float(np.abs(M - M.conj().T).max())
        if not dev <= TOLF:
            ctx.fail("operator-flag:%s.%s:claims-true-but-matrix-is-not" % (d["cls"], method), dict(d, flag_sweep=True),
                     "unitary matrix" if pid == "C01" else "Hermitian matrix", dev)
    return claim


NON_GATE_COVERED = {"PauliString", "WeightedPauliString", "PauliOperator", "FieldOperator", "FieldOperatorTerm", "IsingHamiltonian",
                    "HeisenbergHamiltonian", "FermiHubbardHamiltonian", "MolecularHamiltonian"}


def operator_flags(ctx, pid):
    """every class of qib.operator that has is_unitary() (C01) / is_hermitian() (C16): the gate classes are swept by the gate
    harnesses, control instructions have no matrix and answer False; every other class needs an instance generator here,
    so a newly added operator class (or a newly implemented flag method) cannot go unexamined"""
    import inspect
    import qib.operator as qop
    method = "is_unitary" if pid == "C01" else "is_hermitian"
    missing = []
    for name, obj in sorted(vars(qop).items()):
        if not (inspect.isclass(obj) and callable(getattr(obj, method, None))) or inspect.isabstract(obj):
            continue
        if issubclass(obj, qop.Gate):
            ctx.count("operator_flags:class-covered-by-gate-sweeps")
            continue
        if issubclass(obj, qop.ControlInstruction):
            try:
                inst = obj()
                if getattr(inst, method)():
                    ctx.fail("operator-flag:%s.%s:control-instruction-claims-true" % (name, method), {"cls": name, "flag_sweep": True})
            except Exception:
                pass
            continue
        if name not in NON_GATE_COVERED:
            missing.append(name)
    ctx.oblige("operator-flags:every-operator-class-has-an-instance-generator", "correspondence", not missing,
               "no instance generator for: %s" % ", ".join(missing))
    ctx.rules.append("operator flags (%s): every non-gate class of qib.operator found by introspection x instances (Pauli operators with "
                     "complex relative phases carried by the weight or by the string's q, anti-commuting normalised mixtures, commuting "
                     "mixtures, zero weights; field operators / molecular Hamiltonians with Hermitian and non-Hermitian coefficients; model "
                     "Hamiltonians): a claim True (a method that raises NotImplementedError claims nothing) must hold of as_matrix() to 1e-9"
                     % method)
    for d in operator_instances(ctx.rng, ctx.thorough):
        claim = check_operator_flag(ctx, pid, d)
        if claim:
            ctx.nontriv(("operator-flag", repr(d)[:1500]))
    ctx.rules.append("parameter TYPES (%s): every scalar parameter (Ising J/h/g, Heisenberg J_k/h_k, Hubbard t/u, molecular c, Pauli weights, "
                     "constant term / scalar factor of field operators) as Python int/float/bool/complex/Fraction, numpy float16/32/64/"
                     "longdouble, complex64/128/clongdouble, int8/32/64, uint8, bool_, 0-d and 1-element arrays, with non-zero imaginary part "
                     "where the type can carry one; every array parameter (Heisenberg J/h vectors, molecular tkin/vint, field-operator "
                     "coefficients, GeneralGate matrix) as complex128/64, float64/32/16, int64/8, bool, object arrays, Hermitian and not: "
                     "the constructor refuses (no claim) or a claim True holds of as_matrix() to 1e-9" % method)
    for d in typed_instances(ctx.rng, ctx.thorough):
        t = d["typed"]
        try:
            claim = check_operator_flag(ctx, pid, d)
        except Exception as e:
            # the flag method itself fails on an exotic type (Fraction, object arrays): no answer, hence no claim
            ctx.count("typed:%s:flag-raises-%s" % (t.get("ptype", "array-" + t.get("dtype", "")), type(e).__name__))
            continue
        ctx.count("typed:%s:%s" % (t.get("ptype", "array-" + t.get("dtype", "")), "refused" if claim is None else "claims" if claim else "no-claim"))
        if claim:
            ctx.nontriv(("typed-flag", repr(d)))
    boundary_flags(ctx, pid)
    flag_histories(ctx, pid)


# =============================================================================== flags near their decision boundary
# The Pauli classes decide their flags by EXACT tests (abs(weight) == 1, (phase * weight).imag == 0), so a claim True holds of the
# matrix up to rounding of the product weight * P (a few ulp).  The oracle tolerance is tied to that: 1e-12 (relative to the
# largest entry for Hermiticity), far below every "is close" tolerance (numpy's isclose: rtol 1e-5, atol 1e-8) a decision
# procedure might use instead.  Inputs: weights whose modulus is 1 +- 2^-k (k = 10..53) / whose would-be-zero imaginary part is
# 2^-k of the real part (k = 10..1074), in every complex direction, every q of the string, several scalar types, given directly
# or ACCUMULATED by PauliOperator.add_pauli_string (0.5 + (0.5 + 2^-k), four quarters, parts that cancel back to the boundary).
BOUNDARY_TOL = 1e-12
_UNITS = [(1.0, 0.0), (0.0, 1.0), (-1.0, 0.0), (0.0, -1.0)]


def _hx(c):
    c = complex(c)
    return [float(c.real).hex(), float(c.imag).hex()]


def _unhx(w):
    return complex(float.fromhex(w[0]), float.fromhex(w[1]))


def boundary_scalar(w, wtype):
    """the weight (given as a pair of hex floats: lossless in JSON) as a value of the requested scalar type; None when that
    type cannot hold it exactly"""
    c = _unhx(w)
    if wtype == "complex":
        return c
    if wtype == "np.complex128":
        return np.complex128(c)
    if wtype in ("float", "np.float64", "np.float32", "np.longdouble"):
        if c.imag != 0:
            return None
        v = {"float": float, "np.float64": np.float64, "np.float32": np.float32, "np.longdouble": np.longdouble}[wtype](c.real)
        return v if float(v) == c.real else None
    if wtype == "np.complex64":
        v = np.complex64(c)
        return v if complex(v) == c else None
    raise KeyError(wtype)


def boundary_instances(pid, thorough):
    """deterministic (no PRNG).  C01: |w| = 1 +- 2^-k; C16: Im(phase * w) = +-2^-k Re, tiny overall scales"""
    strings = [[[0], [1], 0], [[1], [1], 1], [[1, 0], [1, 1], 2], [[1], [0], 0], [[0, 1], [1, 1], 3], [[1, 1], [1, 0], 1], [[0, 0], [0, 0], 0]]
    types = ["complex", "float", "np.complex128", "np.float64", "np.float32", "np.complex64"]
    dirs = [1.0, -1.0, 1j, -1j, 0.6 + 0.8j, -0.8 + 0.6j, complex(np.exp(0.3j)), complex(np.exp(-2.1j))]
    out = []

    def emit(cls_via, p, parts, wtype):
        if any(boundary_scalar(w, wtype) is None for w in parts):
            wtype = "complex"
        out.append({"cls": "WeightedPauliString" if cls_via == "direct" else "PauliOperator", "flag_sweep": True,
                    "boundary": {"via": cls_via, "p": p, "parts": parts, "wtype": wtype}})
    j = 0
    if pid == "C01":
        for k in range(10, 54):
            for s in (1, -1):
                if k == 53 and s == 1:
                    continue                                    # 1 + 2^-53 is not a binary64 number
                m = 1.0 + s * 2.0 ** -k
                nd = len(dirs) if thorough else 3
                for i in range(nd):
                    j += 1
                    u = dirs[(j + i) % len(dirs)] if not thorough else dirs[i]
                    emit("direct", strings[j % len(strings)], [_hx(m * u)], types[j % len(types)])
                # accumulated: halves, quarters (rounding inside the sum is part of the input), back onto the boundary
                u = dirs[j % 4]                                  # exact directions: the sums below are exact for k <= 51
                p = strings[(j + 3) % len(strings)]
                emit("add", p, [_hx(0.5 * u), _hx((0.5 + s * 2.0 ** -k) * u)], types[(j + 1) % 2 * 2])
                if thorough or k % 3 == 0:
                    emit("add", p, [_hx(0.25 * u)] * 3 + [_hx((0.25 + s * 2.0 ** -k) * u)], "complex")
                    emit("add", p, [_hx(m * u), _hx(-s * 2.0 ** -k * u)], "complex")          # sums to exactly u: a legitimate claim
                    emit("add", p, [_hx(2.0 * u), _hx(-(1.0 - s * 2.0 ** -k) * u)], "complex")
        for parts in ([0.1, 0.2, 0.7], [0.7, 0.2, 0.1], [0.3, 0.3, 0.3, 0.1], [1 / 3.0] * 3, [0.1] * 10, [1.0], [1j], [0.5, 0.5], [0.6 + 0.8j],
                      [1e-5 + 1.0], [1.0 - 1e-8], [1.00001], [0.999992], [-1.000005], [0.500004, 0.5]):
            emit("add" if len(parts) > 1 else "direct", strings[len(parts) % 3], [_hx(c) for c in parts], "complex")
        return out
    ks = list(range(10, 61)) + [64, 80, 100, 200, 500, 1000, 1022, 1050, 1074]
    for k in ks:
        for s in (1, -1):
            j += 1
            e = s * 2.0 ** -k
            p = strings[j % len(strings)]
            un = complex(*_UNITS[p[2] % 4])                     # weight = c * i^q is the Hermitian direction of a string with this q
            for i, re in enumerate((1.0, -0.75, 3.0) if thorough else (1.0, -0.75)[(j % 2):(j % 2) + 1]):
                c = complex(re, re * e)
                emit("direct", p, [_hx(c * un)], types[(j + i) % 2 * 2])
                emit("direct", p, [_hx(complex(re * e, re) * un)], "complex")                 # nearly ANTI-Hermitian: no claim expected
            emit("add", p, [_hx(complex(0.5, e) * un), _hx(0.5 * un)], "complex")
            if thorough or k % 3 == 0:
                emit("add", p, [_hx(complex(1.0, e) * un), _hx(complex(1.0, -e) * un)], "complex")   # imaginary parts cancel exactly
                emit("add", p, [_hx(complex(0.25, 0.25) * un), _hx(complex(0.25, -0.25 + e) * un)], "complex")
    # tiny / huge overall scale: the anti-Hermitian direction of a tiny weight is below every absolute tolerance
    for k in (20, 27, 30, 40, 60, 200, 1000, 1074, -30, -500):
        for q in range(4):
            p = [[1, 0], [1, 1], q]
            un = complex(*_UNITS[q])
            emit("direct", p, [_hx(complex(2.0 ** -k, 0) * un)], "complex")
            emit("direct", p, [_hx(complex(0, 2.0 ** -k) * un)], "complex")
            emit("add", p, [_hx(complex(2.0 ** -k, 2.0 ** -k) * un), _hx(complex(2.0 ** -k, 0) * un)], "complex")
    return out


def check_boundary_flag(ctx, pid, d):
    from qib.operator import PauliString, WeightedPauliString, PauliOperator
    method = "is_unitary" if pid == "C01" else "is_hermitian"
    b = d["boundary"]
    ws = [boundary_scalar(w, b["wtype"]) for w in b["parts"]]
    mk = lambda w: WeightedPauliString(PauliString(*b["p"]), w)
    if b["via"] == "direct":
        objs = [("string", mk(ws[0]))]
    else:
        op = PauliOperator([mk(ws[0])])
        for w in ws[1:]:
            op.add_pauli_string(mk(w))
        objs = [("accumulated string", op.pstrings[0]), ("operator", op)]
    claims = 0
    for who, o in objs:
        try:
            claim = bool(getattr(o, method)())
        except NotImplementedError:
            continue
        ctx.count("boundary_flags:%s:%s" % (who, claim))
        if not claim:
            continue
        claims += 1
        M = dense(o.as_matrix())
        if pid == "C01":
            dev, tol = float(np.abs(M @ M.conj().T - np.eye(len(M))).max()), BOUNDARY_TOL
        else:
            dev, tol = float(np.abs(M - M.conj().T).max()), BOUNDARY_TOL * float(np.abs(M).max())
        if not dev <= tol:
            ctx.fail("boundary-flag:%s.%s:claims-true-near-the-decision-boundary-but-matrix-is-not" % (type(o).__name__, method),
                     dict(d, object=who), ("unitary" if pid == "C01" else "Hermitian") + " matrix up to rounding (%g)" % tol, dev)
    return claims


def boundary_flags(ctx, pid):
    method = "is_unitary" if pid == "C01" else "is_hermitian"
    ctx.rules.append("flags near their decision boundary (%s): Pauli-string weights %s, in 8 complex directions / every q, as Python and numpy "
                     "scalars of several widths, given directly or accumulated by PauliOperator.add_pauli_string (halves, quarters, parts "
                     "cancelling back onto the boundary, decimal fractions summing to 0.9999999999999999); a claim True must hold of the "
                     "matrix to 1e-12 (the decision is an exact test, so a true claim is exact up to rounding) - never at an is-close tolerance"
                     % (method, "of modulus 1 +- 2^-k, k = 10..53" if pid == "C01" else
                        "whose would-be-real part has an imaginary admixture 2^-k, k = 10..1074, and tiny / huge overall scales"))
    for d in boundary_instances(pid, ctx.thorough):
        if check_boundary_flag(ctx, pid, d):
            ctx.nontriv(("boundary-flag", repr(d["boundary"])))
        ctx.count("boundary_flags")


# =============================================================================== flag histories (stale answers)
def _cx(w):
    return complex(w[0], w[1])


def build_flag_object(d):
    """objects with mutable state whose flag could be cached: Pauli classes, field operators, gates"""
    import qib
    from qib.operator import BlockEncodingMethod
    c = d["cls"]
    if c in ("GeneralGate", "ControlledGate", "MultiplexedGate"):
        mats = {"X": [[0, 1], [1, 0]], "Z": [[1, 0], [0, -1]], "S": [[1, 0], [0, 1j]], "iY": [[0, 1], [-1, 0]], "Y": [[0, -1j], [1j, 0]]}
        gs = [qib.GeneralGate(np.array(mats[m], dtype=complex), 1) for m in d["mats"]]
        if c == "GeneralGate":
            return gs[0], gs[0], mats
        if c == "ControlledGate":
            g = qib.ControlledGate(gs[0], 1, [1])
            return g, g, mats
        g = qib.MultiplexedGate(gs, 1)
        return g, g, mats
    if c == "BlockEncodingGate":
        h = qib.operator.PauliOperator([qib.operator.WeightedPauliString(qib.operator.PauliString.from_string("XZ"), 0.4),
                                        qib.operator.WeightedPauliString(qib.operator.PauliString.from_string("YI"), -0.3)])
        h.set_field(_field("qubit", 2))
        g = qib.BlockEncodingGate(h, BlockEncodingMethod[d["method"]])
        return g, g, None
    obj, mobj = build_operator(d)
    return obj, mobj, None


def apply_flag_op(obj, mobj, extra, op):
    """one public mutation; obj is the object whose flag is asked, mobj the one whose as_matrix() is the matrix"""
    import qib
    from qib.operator import PauliString, WeightedPauliString, BlockEncodingMethod
    k = op[0]
    strings = getattr(obj, "pstrings", None)
    if k == "add":                       # PauliOperator.add_pauli_string: merges into an equal string, else appends
        obj.add_pauli_string(WeightedPauliString(PauliString(*op[1]), _cx(op[2])))
    elif k == "set_weight":
        (strings[op[1]] if strings is not None else obj).weight = _cx(op[2])
    elif k == "set_pauli":
        tgt = strings[op[1]].paulis if strings is not None else (obj.paulis if hasattr(obj, "paulis") else obj)
        tgt.set_pauli(op[2], op[3])
    elif k == "set_q":
        tgt = strings[op[1]].paulis if strings is not None else (obj.paulis if hasattr(obj, "paulis") else obj)
        tgt.q = op[2]
    elif k == "refactor_phase":
        tgt = strings[op[1]].paulis if strings is not None else (obj.paulis if hasattr(obj, "paulis") else obj)
        tgt.refactor_phase()
    elif k == "remove_zero":
        obj.remove_zero_weight_strings()
    elif k == "set_coeffs":              # FieldOperatorTerm.coeffs / first term of a FieldOperator
        t = obj.terms[0] if hasattr(obj, "terms") else obj
        t.coeffs = t.coeffs * _cx(op[1])
    elif k == "set_mat":                 # GeneralGate.mat (of the gate itself / of the target(s))
        g = obj
        if type(obj).__name__ == "ControlledGate":
            g = obj.tgate
        elif type(obj).__name__ == "MultiplexedGate":
            g = obj.tgates[op[2] if len(op) > 2 else 0]
        g.mat = np.array(extra[op[1]], dtype=complex)
    elif k == "replace_target":
        g = qib.GeneralGate(np.array(extra[op[1]], dtype=complex), 1)
        if type(obj).__name__ == "ControlledGate":
            obj.tgate = g
        else:
            obj.tgates[op[2]] = g
    elif k == "set_method":
        obj.method = BlockEncodingMethod[op[1]]
    else:
        raise ValueError(k)


def check_flag_history(ctx, pid, d):
    """query the flag, mutate through the public API / public attributes, query again ...; every answer True must hold of
    the matrix AT THAT MOMENT (a cached answer that survives a mutation is a stale claim)"""
    method = "is_unitary" if pid == "C01" else "is_hermitian"
    try:
        obj, mobj, extra = build_flag_object(d["obj"])
    except Exception:
        ctx.count("flag_history:not-constructible")
        return
    cls = d["obj"]["cls"]
    if not callable(getattr(obj, method, None)):
        return                                  # the class does not answer this question (e.g. FieldOperatorTerm.is_unitary)

    def query(step):
        try:
            claim = bool(getattr(obj, method)())
        except NotImplementedError:
            return
        if claim:
            M = dense(mobj.as_matrix())
            dev = float(np.abs(M @ M.conj().T - np.eye(len(M))).max()) if pid == "C01" else float(np.abs(M - M.conj().T).max())
            if not dev <= TOLF:
                ctx.fail("flag-history:%s.%s:claims-true-but-current-matrix-is-not" % (cls, method),
                         dict(d, flag_sweep=True, step=step), "unitary" if pid == "C01" else "Hermitian", dev)
    try:
        query(-1)
        for step, op in enumerate(d["ops"]):
            apply_flag_op(obj, mobj, extra, op)
            query(step)
    except Exception as e:
        ctx.fail("flag-history:%s.%s:raises" % (cls, method), dict(d, flag_sweep=True), "history evaluates", repr(e)[:200])


def flag_history_inputs(rng, thorough):
    X, Y, Z = [[0], [1], 0], [[1], [1], 1], [[1], [0], 0]
    PO = lambda items: {"cls": "PauliOperator", "items": items}
    H = []
    # merge path of add_pauli_string: a present string accumulates an imaginary weight
    H.append({"obj": PO([[X, [1, 0]], [Z, [0.5, 0]]]), "ops": [["add", X, [0, 1]], ["add", Y, [1, 0]], ["add", Z, [0, -0.25]]]})
    H.append({"obj": PO([[X, [1, 0]]]), "ops": [["set_weight", 0, [0, 1]], ["set_weight", 0, [1, 0]], ["set_weight", 0, [1, 1]]]})
    H.append({"obj": PO([[Y, [1, 0]], [X, [2, 0]]]), "ops": [["set_q", 0, 0], ["set_q", 0, 1], ["refactor_phase", 0], ["set_q", 1, 3]]})
    H.append({"obj": PO([[X, [1, 0]], [Z, [1, 0]]]), "ops": [["set_pauli", 0, "Y", 0], ["set_pauli", 0, "X", 0], ["set_pauli", 1, "Y", 0]]})
    H.append({"obj": PO([[X, [1, 0]], [Z, [0, 1]]]), "ops": [["set_weight", 1, [0, 0]], ["remove_zero"], ["add", Z, [0, 2]], ["remove_zero"]]})
    H.append({"obj": PO([[[[0, 1], [1, 1], 1], [1, 0]]]), "ops": [["add", [[1, 0], [0, 1], 0], [0, 1]], ["add", [[0, 1], [1, 1], 1], [0, 1]]]})
    s = 1 / np.sqrt(2)
    H.append({"obj": {"cls": "WeightedPauliString", "p": X, "w": [1, 0]},
              "ops": [["set_weight", 0, [2, 0]], ["set_weight", 0, [0, 1]], ["set_q", 0, 1], ["set_pauli", 0, "Y", 0], ["set_weight", 0, [s, s]]]})
    H.append({"obj": {"cls": "PauliString", "p": [[1, 0], [1, 1], 1]}, "ops": [["set_pauli", 0, "I", 0], ["set_q", 0, 2], ["set_pauli", 0, "Y", 1], ["set_q", 0, 3]]})
    from checks import C10
    H.append({"obj": {"cls": "FieldOperatorTerm", "fterms": C10.desc_terms(2, [([1, 0], np.eye(2))])}, "ops": [["set_coeffs", [0, 1]], ["set_coeffs", [0, 1]]]})
    H.append({"obj": {"cls": "FieldOperator", "fterms": C10.desc_terms(2, [([1, 0], np.ones((2, 2)))])}, "ops": [["set_coeffs", [1, 1]], ["set_coeffs", [1, -1]]]})
    H.append({"obj": {"cls": "GeneralGate", "mats": ["X"]}, "ops": [["set_mat", "S"], ["set_mat", "Z"], ["set_mat", "iY"]]})
    H.append({"obj": {"cls": "ControlledGate", "mats": ["Z"]}, "ops": [["set_mat", "S"], ["replace_target", "X"], ["replace_target", "iY"]]})
    H.append({"obj": {"cls": "MultiplexedGate", "mats": ["X", "Z"]}, "ops": [["set_mat", "S", 1], ["replace_target", "Y", 1], ["replace_target", "iY", 0]]})
    H.append({"obj": {"cls": "BlockEncodingGate", "method": "R"}, "ops": [["set_method", "Wx"], ["set_method", "R"], ["set_method", "Wxi"]]})
    W = [[1, 0], [0, 1], [0, -1], [1, 1], [-1, 0], [0.5, 0], [0, 0]]
    for _ in range(40 if thorough else 10):
        n = rng.randint(1, 2)
        rp = lambda: [[rng.randint(0, 1) for _ in range(n)], [rng.randint(0, 1) for _ in range(n)], rng.randint(0, 3)]
        items = [[rp(), list(rng.choice(W))] for _ in range(rng.randint(1, 3))]
        ops = []
        for _ in range(rng.randint(2, 5)):
            k = rng.choice(["add", "add", "set_weight", "set_q", "set_pauli", "remove_zero", "refactor_phase"])
            i = rng.randrange(len(items))
            if k == "add":
                ops.append(["add", items[i][0] if rng.random() < 0.6 else rp(), list(rng.choice(W))])
            elif k == "set_weight":
                ops.append([k, 0, list(rng.choice(W))])
            elif k == "set_q":
                ops.append([k, 0, rng.randint(0, 3)])
            elif k == "set_pauli":
                ops.append([k, 0, rng.choice("IXYZ"), rng.randrange(n)])
            elif k == "refactor_phase":
                ops.append([k, 0])
            else:
                ops.append([k])
        H.append({"obj": PO(items), "ops": ops})
    return H


# =============================================================================== caller-owned constructor containers
# A flag that is answered on the strength of a constructor check (realness of J / h, Hermiticity of tkin / vint) describes the
# values the object USES only if the object owns them.  So: build every parameter of every flagged class in a mutable container
# the caller keeps (list, nested list, float / complex / object / Fortran arrays), construct, then write into the CALLER's
# container (complex values, non-symmetric real values) and query: a claim True must hold of the matrix at that moment
# (an object that is unaffected by the write passes trivially).
OWNER_FORMS = ["list", "array-float", "array-complex", "array-object", "array-fortran", "array-int"]


def owner_container(vals, shape, form):
    """the values (list of [re, im], row-major) in a container of the given form; None when the form cannot hold them"""
    a = np.array([complex(r, i) for r, i in vals]).reshape(tuple(shape))
    real = bool(np.all(a.imag == 0))

    def py(v):
        v = complex(v)
        return float(v.real) if v.imag == 0 else v
    if form == "list":
        def rec(x):
            return [rec(y) for y in x] if x.ndim > 1 else [py(v) for v in x]
        return rec(a) if a.ndim else [py(a)]              # a scalar parameter: a one-element list
    if form == "array-int":                              # falls back to the narrowest numeric dtype that holds the values
        if real and bool(np.all(a.real == np.round(a.real))):
            return np.array(a.real, dtype=int)
        form = "array-float"
    if form == "array-float":
        return np.array(a.real) if real else np.array(a)
    if form == "array-complex":
        return np.array(a)
    if form == "array-fortran":
        return np.asfortranarray(a.real if real else a)
    if form == "array-object":
        o = np.empty(a.shape, dtype=object)
        for idx in np.ndindex(*a.shape):
            o[idx] = py(a[idx])
        return o
    raise KeyError(form)


def owner_write(c, idx, v):
    """c[idx] = v in the caller's container; False when the container cannot take the value (complex into a float array)"""
    v = complex(v[0], v[1])
    v = float(v.real) if v.imag == 0 else v
    try:
        if isinstance(c, list):
            for k in idx[:-1]:
                c = c[k]
            c[idx[-1]] = v
        else:
            if isinstance(v, complex) and c.dtype.kind in "fiub":
                return False
            c[tuple(idx)] = v
    except (TypeError, ValueError, IndexError):
        return False
    return True


def build_owned(d):
    """-> (object asked, object with the matrix, {slot: caller's container})"""
    import qib
    from qib.operator import (PauliString, WeightedPauliString, PauliOperator, FieldOperator, FieldOperatorTerm, IFODesc, IFOType,
                              IsingHamiltonian, HeisenbergHamiltonian, FermiHubbardHamiltonian, MolecularHamiltonian,
                              MolecularHamiltonianSymmetry)
    c = d["cls"]
    own = {}
    for slot, s in d["slots"].items():
        own[slot] = owner_container(s["v"], s["shape"], s["as"])
        if own[slot] is None:
            raise ValueError("form cannot hold the values")
    if c == "HeisenbergHamiltonian":
        o = HeisenbergHamiltonian(_field("qubit", d["n"]), own["J"], own["h"])
    elif c == "IsingHamiltonian":
        o = IsingHamiltonian(_field("qubit", d["n"]), own["J"], own["h"], own["g"])
    elif c == "FermiHubbardHamiltonian":
        o = FermiHubbardHamiltonian(_field("fermi", d["n"]), own["t"], own["u"], False)
    elif c == "MolecularHamiltonian":
        symm = MolecularHamiltonianSymmetry.HERMITIAN
        if d.get("varchange"):
            symm = symm | MolecularHamiltonianSymmetry.VARCHANGE
        o = MolecularHamiltonian(_field("fermi", d["n"]), d.get("c", 0.5), own["tkin"], own["vint"], symm)
    elif c in ("FieldOperatorTerm", "FieldOperator"):
        f = _field("fermi", d["n"])
        pat = d.get("pat", [1, 0])
        t = FieldOperatorTerm([IFODesc(f, IFOType.FERMI_CREATE if k else IFOType.FERMI_ANNIHIL) for k in pat], own["coeffs"])
        op = FieldOperator([t])
        return (t if c == "FieldOperatorTerm" else op), op, own
    elif c == "PauliString":
        o = PauliString(own["z"], own["x"], d["q"])
    elif c == "WeightedPauliString":
        o = WeightedPauliString(PauliString(own["z"], own["x"], d["q"]), complex(*d["w"]))
    elif c == "PauliOperator":
        o = PauliOperator([WeightedPauliString(PauliString(own["z"], own["x"], d["q"]), complex(*d["w"])),
                           WeightedPauliString(PauliString(own["z"], own["x"], 0), 0.5)])
    else:
        raise KeyError(c)
    return o, o, own


def check_owner_history(ctx, pid, d):
    method = "is_unitary" if pid == "C01" else "is_hermitian"
    cls = d["cls"]
    try:
        obj, mobj, own = build_owned(d)
    except Exception:
        ctx.count("owner_history:refused:" + cls)
        return None
    if not callable(getattr(obj, method, None)):
        return None
    ctx.count("owner_history:constructed:" + cls)

    def query(step):
        try:
            claim = bool(getattr(obj, method)())
        except NotImplementedError:
            return
        except Exception:
            ctx.count("owner_history:flag-raises-after-write:" + cls)     # no answer, hence no claim
            return
        if not claim:
            return
        try:
            M = dense(mobj.as_matrix())
        except Exception:
            ctx.count("owner_history:claims-true-but-no-matrix:" + cls)   # e.g. a string with an entry 2: nothing to compare with
            return
        dev = float(np.abs(M @ M.conj().T - np.eye(len(M))).max()) if pid == "C01" else float(np.abs(M - M.conj().T).max())
        if not dev <= TOLF:
            ctx.fail("owner-history:%s.%s:claims-true-after-write-into-the-callers-container-but-matrix-is-not" % (cls, method),
                     dict(d, flag_sweep=True, step=step), "unitary" if pid == "C01" else "Hermitian (or an object that owns its parameters)", dev)
    query(-1)
    for step, (slot, idx, v) in enumerate(d["writes"]):
        if owner_write(own[slot], idx, v):
            ctx.count("owner_history:writes")
            query(step)
        else:
            ctx.count("owner_history:container-cannot-take-the-value")
    return True


def owner_history_inputs(rng, thorough):
    H = []
    pair = lambda xs: [[float(np.real(x)), float(np.imag(x))] for x in xs]
    for form in OWNER_FORMS:
        other = OWNER_FORMS[(OWNER_FORMS.index(form) + 1) % len(OWNER_FORMS)]
        # Heisenberg: J, h vectors; the seed-like write first (a complex value into J), then h, then real values
        for fa, fb in ((form, form), (form, other)):
            H.append({"cls": "HeisenbergHamiltonian", "n": 2,
                      "slots": {"J": {"as": fa, "shape": [3], "v": pair([1.0, -0.5, 2.0])}, "h": {"as": fb, "shape": [3], "v": pair([0.25, 1.0, -0.75])}},
                      "writes": [["J", [1], [0.0, 0.25]], ["J", [1], [0.5, 0.0]], ["h", [2], [1.0, 1.0]], ["h", [0], [-2.0, 0.0]], ["J", [0], [0.0, -1.0]]]})
        H.append({"cls": "HeisenbergHamiltonian", "n": 3,
                  "slots": {"J": {"as": form, "shape": [3], "v": pair([0.0, 0.0, 1.0])}, "h": {"as": form, "shape": [3], "v": pair([0.0, 0.0, 0.0])}},
                  "writes": [["h", [1], [0.0, 1.0]], ["J", [2], [1.0, 1.0]]]})
        # Ising / Hubbard: scalar parameters inside 0-d / 1-element containers (refused by the isinstance guards: counted)
        H.append({"cls": "IsingHamiltonian", "n": 2, "slots": {k: {"as": form, "shape": [], "v": pair([x])} for k, x in (("J", 1.0), ("h", 0.5), ("g", -0.25))},
                  "writes": [["J", [], [0.0, 1.0]], ["g", [], [1.0, 1.0]]]})
        H.append({"cls": "FermiHubbardHamiltonian", "n": 2, "slots": {k: {"as": form, "shape": [], "v": pair([x])} for k, x in (("t", 1.0), ("u", 0.5))},
                  "writes": [["t", [], [0.0, 1.0]], ["u", [], [1.0, 1.0]]]})
        # molecular: tkin (complex Hermitian and real symmetric), vint; complex and non-symmetric real writes
        for n in (2, 3):
            tkc = np.array([[1.0 + i if i == j else 0.5 + 0.25j * (i - j) for j in range(n)] for i in range(n)])
            tkr = np.array([[1.0 + i if i == j else 0.5 for j in range(n)] for i in range(n)], dtype=complex)
            vi = np.zeros((n,) * 4, dtype=complex)
            for i in range(n):
                for j in range(n):
                    vi[i, j, i, j] = 0.5 + 0.25 * (i + j)
            for tk, (ft, fv) in [(t, c) for t in (tkc, tkr) for c in sorted({(form, form), (form, "array-complex"), ("array-float", form)})]:
                H.append({"cls": "MolecularHamiltonian", "n": n, "varchange": tk is tkr,
                          "slots": {"tkin": {"as": ft, "shape": [n, n], "v": pair(tk.reshape(-1))}, "vint": {"as": fv, "shape": [n] * 4, "v": pair(vi.reshape(-1))}},
                          "writes": [["tkin", [0, 1], [0.0, 1.0]], ["tkin", [0, 1], [0.75, 0.0]], ["tkin", [0, 1], [0.5, 0.0]], ["tkin", [1, 1], [2.0, 1.0]],
                                     ["vint", [0, 1, 1, 0], [0.0, 0.5]], ["vint", [0, 1, 1, 0], [0.5, 0.0]], ["vint", [0, 0, 0, 0], [1.0, 1.0]]]})
        # field operator terms (flag recomputed from the coefficients: must follow the write or own a copy)
        for cls in ("FieldOperatorTerm", "FieldOperator"):
            hm = np.array([[1.0, 0.5 - 0.25j], [0.5 + 0.25j, 2.0]])
            H.append({"cls": cls, "n": 2, "slots": {"coeffs": {"as": form, "shape": [2, 2], "v": pair(hm.reshape(-1))}},
                      "writes": [["coeffs", [0, 1], [0.0, 1.0]], ["coeffs", [1, 0], [0.0, -1.0]], ["coeffs", [0, 0], [1.0, 1.0]], ["coeffs", [0, 1], [2.0, 0.0]]]})
        # Pauli strings: the check-matrix rows (z, x) are the caller's; Y <-> Z <-> X changes, an entry outside {0, 1}
        if form in ("list", "array-float", "array-object", "array-int"):
            for cls, q in (("PauliString", 0), ("PauliString", 1), ("WeightedPauliString", 1), ("PauliOperator", 0), ("PauliOperator", 3)):
                H.append({"cls": cls, "q": q, "w": [0.0, 1.0] if q % 2 else [1.0, 0.0],
                          "slots": {"z": {"as": form, "shape": [2], "v": pair([1, 0])}, "x": {"as": form, "shape": [2], "v": pair([1, 1])}},
                          "writes": [["z", [0], [0.0, 0.0]], ["x", [0], [0.0, 0.0]], ["z", [1], [1.0, 0.0]], ["x", [1], [0.0, 0.0]], ["z", [0], [1.0, 0.0]]]})
    return H


def flag_histories(ctx, pid):
    ctx.rules.append("caller-owned constructor containers: every vector / matrix / tensor parameter of Heisenberg (J, h), molecular (tkin, vint), "
                     "field-operator (coeffs), Pauli-string (z, x) constructors (and the scalar parameters of Ising / Hubbard in 0-d containers: "
                     "refused) as Python list / nested list / float, complex, object and Fortran arrays kept by the caller; after construction "
                     "the caller writes complex and non-symmetric real values into ITS container; after every write a claim True must hold of "
                     "the matrix at that moment")
    for d in owner_history_inputs(ctx.rng, ctx.thorough):
        if check_owner_history(ctx, pid, d):
            ctx.nontriv(("owner-history", repr(d)[:1500]))
    ctx.rules.append("flag histories: query %s, mutate through add_pauli_string (merge and append paths) / weight, q, set_pauli, "
                     "refactor_phase, remove_zero_weight_strings / coefficient, matrix, target, method assignment, query again; every "
                     "answer True must hold of the matrix at that moment" % ("is_unitary()" if pid == "C01" else "is_hermitian()"))
    for d in flag_history_inputs(ctx.rng, ctx.thorough):
        ctx.count("flag_histories")
        check_flag_history(ctx, pid, d)
        ctx.nontriv(("flag-history", repr(d)[:1500]))


def replay_flag(ctx, pid, data):
    """True iff the replay input belongs to the operator-flag sweep (then handled here)"""
    inp = data.get("input")
    if not (isinstance(inp, dict) and inp.get("flag_sweep")):
        return False
    before = len(ctx.failing)
    if "writes" in inp and "slots" in inp:
        check_owner_history(ctx, pid, inp)
    elif "ops" in inp and "obj" in inp:
        check_flag_history(ctx, pid, inp)
    elif "boundary" in inp:
        check_boundary_flag(ctx, pid, inp)
    elif "cls" in inp:
        check_operator_flag(ctx, pid, inp)
    new = ctx.failing[before:]
    del ctx.failing[before:]
    if new:
        ctx.fail(data["sig"], inp, data.get("expected"), new[0]["observed"])
    return True
