"""Pauli part of C01 (is_unitary claims) and C16 (is_hermitian claims): theorems in
coq/props/C01p.v / C16p.v, correspondence of the flags, oracles on the implementation."""
import os, sys
import numpy as np
from vlib import coqterm as ct
from vlib.core import COQ
from checks.C09 import p3, ref_matrix, dense, rand_p, HEADER


def run(ctx, pid):
    from qib.operator.pauli_operator import PauliString, WeightedPauliString, PauliOperator
    import pauli as gen_pauli
    assert pid in ("C01", "C16")
    ctx.lib(["Pauli/PauliCheck", "Pauli/PauliProofs3"])
    if not any(o["name"] == "translator:GenPauli" for o in ctx.obligations):
        ctx.translate("GenPauli", gen_pauli.generate)
    if all(o["ok"] for o in ctx.obligations if o["name"] == "translator:GenPauli"):
        ctx.props(os.path.join(COQ, "props", pid + "p.v"))
    ctx.trusted.append("%s (Pauli part): the shapes of PauliString/WeightedPauliString.is_unitary/is_hermitian and "
                       "PauliOperator.is_hermitian are asserted by gen/pauli.py (fail-closed); abs(w)==1 and .imag==0 are "
                       "modelled as w*conj(w)=1 and self-conjugacy in an exact *-ring" % pid)
    ctx.rules.append("Pauli flags: random strings n<=4 x weights from {0,+-1,+-i,1+i,2,3-4i,...} and operators of 1-4 such strings; "
                     "non-trivial = non-identity string")
    rng = ctx.rng
    W = [1, -1, 1j, -1j, 0, 2, 1 + 1j, 3 - 4j, -2j, 1 - 1j]
    cases = []
    for _ in range(400 if ctx.thorough else 120):
        n = rng.randint(1, 4)
        a = rand_p(rng, n)
        w = rng.choice(W)
        ws = WeightedPauliString(PauliString(*a), w)
        M = dense(ws.as_matrix())
        desc = {"kind": "weighted", "a": a, "w": str(w)}
        ctx.count("weighted_n=%d" % n)
        if any(a[0]) or any(a[1]):
            ctx.nontriv(desc)
        ctx.sample(desc)
        if pid == "C16":
            fl = bool(ws.is_hermitian())
            cases.append(("CWHerm %s %s %s" % (p3(*a), ct.zi(w), ct.b(fl)), desc))
            herm = np.array_equal(M, M.conj().T)
            if fl and not herm:
                ctx.fail("weighted:is_hermitian-unsound", desc, "Hermitian matrix", "not Hermitian")
            if herm and not fl:
                ctx.fail("weighted:is_hermitian-incomplete", desc, "flag True (exactly representable phase)", "False")
            ps = PauliString(*a)
            P = dense(ps.as_matrix())
            if bool(ps.is_hermitian()) != np.array_equal(P, P.conj().T):
                ctx.fail("string:is_hermitian-inexact", desc)
        else:
            fl = bool(ws.is_unitary())
            cases.append(("CWUnit %s %s %s" % (p3(*a), ct.zi(w), ct.b(fl)), desc))
            uni = np.allclose(M @ M.conj().T, np.eye(len(M)), atol=1e-12)
            if fl and not uni:
                ctx.fail("weighted:is_unitary-unsound", desc, "unitary matrix", "not unitary")
            ps = PauliString(*a)
            P = dense(ps.as_matrix())
            cases.append(("CPUnit %s %s" % (p3(*a), ct.b(bool(ps.is_unitary()))), desc))
            if ps.is_unitary() and not np.array_equal(P @ P.conj().T, np.eye(len(P))):
                ctx.fail("string:is_unitary-unsound", desc)
    if pid == "C16":
        for _ in range(200 if ctx.thorough else 60):
            n = rng.randint(1, 3)
            items = [(rand_p(rng, n), rng.choice(W)) for _ in range(rng.randint(1, 4))]
            op = PauliOperator([WeightedPauliString(PauliString(*a), w) for a, w in items])
            fl = bool(op.is_hermitian())
            desc = {"kind": "operator", "items": [(a, str(w)) for a, w in items]}
            ctx.nontriv(desc)
            cases.append(("COpHerm %s %s" % (ct.lst([ct.pair(p3(*a), ct.zi(w)) for a, w in items]), ct.b(fl)), desc))
            M = dense(op.as_matrix())
            if fl and not np.array_equal(M, M.conj().T):
                ctx.fail("operator:is_hermitian-unsound", desc)
    ctx.cases("pauliflags", HEADER, cases)
