"""Pauli part of C01 (is_unitary claims) and C16 (is_hermitian claims): theorems in
coq/props/C01p.v / C16p.v, correspondence of the flags, oracles on the implementation."""
import os, sys
import numpy as np
from vlib import coqterm as ct
from vlib.core import COQ
from checks.C09 import p3, ref_matrix, dense, rand_p, HEADER


def run(ctx, pid):
    from qib.operator.pauli_operator import PauliString, WeightedPauliString, PauliOperator
    import pauli as gen_pauli
    assert pid in ("C01", "C16")
    ctx.lib(["Pauli/PauliCheck", "Pauli/PauliProofs3"])
    if not any(o["name"] == "translator:GenPauli" for o in ctx.obligations):
        # C01 additionally requires PauliOperator.is_unitary to be the NotImplementedError stub (fail closed)
        ctx.translate("GenPauli", (lambda: gen_pauli.generate(operator_unitary=True)) if pid == "C01" else gen_pauli.generate)
    if all(o["ok"] for o in ctx.obligations if o["name"] == "translator:GenPauli"):
        ctx.props(os.path.join(COQ, "props", pid + "p.v"))
    ctx.trusted.append("%s (Pauli part): the shapes of PauliString/WeightedPauliString.is_unitary/is_hermitian and "
                       "PauliOperator.is_hermitian are asserted by gen/pauli.py (fail-closed); abs(w)==1 and .imag==0 are "
                       "modelled as w*conj(w)=1 and self-conjugacy in an exact *-ring" % pid)
    ctx.rules.append("Pauli flags: random strings n<=4 x weights from {0,+-1,+-i,1+i,2,3-4i,...} and operators of 1-4 such strings; "
                     "non-trivial = non-identity string")
    rng = ctx.rng
    W = [1, -1, 1j, -1j, 0, 2, 1 + 1j, 3 - 4j, -2j, 1 - 1j]
    cases = []
    for _ in range(400 if ctx.thorough else 120):
        n = rng.randint(1, 4)
        a = rand_p(rng, n)
        w = rng.choice(W)
        ws = WeightedPauliString(PauliString(*a), w)
        M = dense(ws.as_matrix())
        desc = {"kind": "weighted", "a": a, "w": str(w)}
        ctx.count("weighted_n=%d" % n)
        if any(a[0]) or any(a[1]):
            ctx.nontriv(desc)
        ctx.sample(desc)
        if pid == "C16":
            fl = bool(ws.is_hermitian())
            cases.append(("CWHerm %s %s %s" % (p3(*a), ct.zi(w), ct.b(fl)), desc))
            herm = np.array_equal(M, M.conj().T)
            if fl and not herm:
                ctx.fail("weighted:is_hermitian-unsound", desc, "Hermitian matrix", "not Hermitian")
            if herm and not fl:
                ctx.fail("weighted:is_hermitian-incomplete", desc, "flag True (exactly representable phase)", "False")
            ps = PauliString(*a)
            P = dense(ps.as_matrix())
            if bool(ps.is_hermitian()) != np.array_equal(P, P.conj().T):
                ctx.fail("string:is_hermitian-inexact", desc)
        else:
            fl = bool(ws.is_unitary())
            cases.append(("CWUnit %s %s %s" % (p3(*a), ct.zi(w), ct.b(fl)), desc))
            uni = np.allclose(M @ M.conj().T, np.eye(len(M)), atol=1e-12)
            if fl and not uni:
                ctx.fail("weighted:is_unitary-unsound", desc, "unitary matrix", "not unitary")
            ps = PauliString(*a)
            P = dense(ps.as_matrix())
            cases.append(("CPUnit %s %s" % (p3(*a), ct.b(bool(ps.is_unitary()))), desc))
            if ps.is_unitary() and not np.array_equal(P @ P.conj().T, np.eye(len(P))):
                ctx.fail("string:is_unitary-unsound", desc)
    if pid == "C16":
        for _ in range(200 if ctx.thorough else 60):
            n = rng.randint(1, 3)
            items = [(rand_p(rng, n), rng.choice(W)) for _ in range(rng.randint(1, 4))]
            op = PauliOperator([WeightedPauliString(PauliString(*a), w) for a, w in items])
            fl = bool(op.is_hermitian())
            desc = {"kind": "operator", "items": [(a, str(w)) for a, w in items]}
            ctx.nontriv(desc)
            cases.append(("COpHerm %s %s" % (ct.lst([ct.pair(p3(*a), ct.zi(w)) for a, w in items]), ct.b(fl)), desc))
            M = dense(op.as_matrix())
            if fl and not np.array_equal(M, M.conj().T):
                ctx.fail("operator:is_hermitian-unsound", desc)
    ctx.cases("pauliflags", HEADER, cases)
    operator_flags(ctx, pid)


# =============================================================================== every operator class, by introspection
TOLF = 1e-9


def _field(kind, n, layered=False):
    import qib
    pt = qib.field.ParticleType.FERMION if kind == "fermi" else qib.field.ParticleType.QUBIT
    lat = qib.lattice.IntegerLattice((n,), pbc=False)
    if layered:
        lat = qib.lattice.LayeredLattice(lat, 2)
    return qib.field.Field(pt, lat)


def build_operator(d):
    """spec -> (object whose flag is asked, object whose as_matrix() is the matrix)"""
    import qib
    from qib.operator import (PauliString, WeightedPauliString, PauliOperator, FieldOperator, FieldOperatorTerm, IFODesc, IFOType,
                              IsingHamiltonian, HeisenbergHamiltonian, FermiHubbardHamiltonian, MolecularHamiltonian,
                              MolecularHamiltonianSymmetry)
    c = d["cls"]
    cx = lambda w: complex(w[0], w[1])
    if c == "PauliString":
        o = PauliString(*d["p"])
        return o, o
    if c == "WeightedPauliString":
        o = WeightedPauliString(PauliString(*d["p"]), cx(d["w"]))
        return o, o
    if c == "PauliOperator":
        o = PauliOperator([WeightedPauliString(PauliString(*p), cx(w)) for p, w in d["items"]])
        return o, o
    if c in ("FieldOperator", "FieldOperatorTerm"):
        f = _field("fermi", d["n"])
        co = np.array([[cx(w) for w in row] for row in d["coeffs"]])
        term = FieldOperatorTerm([IFODesc(f, IFOType.FERMI_CREATE), IFODesc(f, IFOType.FERMI_ANNIHIL)], co)
        op = FieldOperator([term])
        return (term if c == "FieldOperatorTerm" else op), op
    if c == "IsingHamiltonian":
        o = IsingHamiltonian(_field("qubit", d["n"]), d["J"], d["h"], d["g"])
        return o, o
    if c == "HeisenbergHamiltonian":
        o = HeisenbergHamiltonian(_field("qubit", d["n"]), d["J"], d["h"])
        return o, o
    if c == "FermiHubbardHamiltonian":
        o = FermiHubbardHamiltonian(_field("fermi", d["n"], layered=d["spin"]), float(d["t"]), float(d["u"]), d["spin"])
        return o, o
    if c == "MolecularHamiltonian":
        n = d["n"]
        tk = np.array([[cx(w) for w in row] for row in d["tkin"]])
        symm = MolecularHamiltonianSymmetry.HERMITIAN if d["herm"] else MolecularHamiltonianSymmetry(0)
        o = MolecularHamiltonian(_field("fermi", n), d["c"], tk, np.zeros((n, n, n, n)), symm)
        return o, o
    raise KeyError(c)


def operator_instances(rng, thorough):
    """instances per non-gate operator class; Pauli operators: complex relative phases, phase carried by the string (q) vs by
    the weight, pairwise anti-commuting normalised mixtures, commuting and non-commuting mixtures, zero weights"""
    s = 1 / np.sqrt(2)
    X, Y, Z, I1 = ([0], [1]), ([1], [1]), ([1], [0]), ([0], [0])       # (z, x) of one site; Y as a letter has q = 1

    def P(zx, q=0):
        return [list(zx[0]), list(zx[1]), q]
    fixed = [
        [[P(X), [s, 0]], [P(Z), [s, 0]]],                   # (X + Z)/sqrt2: unitary, Hermitian
        [[P(X), [s, 0]], [P(Y, 1), [0, s]]],                # (X + iY)/sqrt2 = sqrt2 |0><1|: NOT unitary
        [[P(X), [s, 0]], [P(Y, 2), [s, 0]]],                # the same relative phase carried by the string: X + (-i)^2... q = 2
        [[P(X), [s, 0]], [P(Y, 0), [s, 0]]],                # q = 0: Z X-type string (iY up to phase), relative phase i through q
        [[P(X), [0.6, 0]], [P(Y, 1), [0.8, 0]]],            # 0.6 X + 0.8 Y: unitary
        [[P(X), [0.6, 0]], [P(Y, 1), [0, 0.8]]],            # 0.6 X + 0.8 i Y: not unitary
        [[P(X), [0.6, 0]], [P(Z), [0.8 * s, 0.8 * s]]],     # complex relative phase e^{i pi/4}
        [[P(X), [s, 0]], [P(X), [s, 0]]],                   # commuting (equal) strings
        [[P(X), [1, 0]]], [[P(Y, 1), [0, 1]]], [[P(Z), [0, 0]], [P(X), [1, 0]]],   # single strings, a zero weight
        [[P(([0, 0], [1, 0])), [s, 0]], [P(([1, 0], [1, 0]), 1), [0, s]]],       # two sites: X1 + i Y1
        [[P(([0, 0], [1, 1])), [0.5, 0]], [P(([1, 1], [0, 0])), [0.5, 0]], [P(([1, 1], [1, 1]), 2), [s, 0]]],  # XX, ZZ, YY commute
        [[P(([0, 0], [1, 0])), [s, 0]], [P(([1, 0], [0, 0])), [0, -s]]],         # X1 - i Z1
    ]
    out = [{"cls": "PauliOperator", "items": it} for it in fixed]
    W = [[1, 0], [-1, 0], [0, 1], [0, -1], [s, s], [s, -s], [0.6, 0.8], [0, 0], [2, 0], [0.5, 0.5]]
    for _ in range(200 if thorough else 60):
        n = rng.randint(1, 3)
        k = rng.randint(1, 3)
        items = []
        for _ in range(k):
            z = [rng.randint(0, 1) for _ in range(n)]
            x = [rng.randint(0, 1) for _ in range(n)]
            items.append([[z, x, rng.randint(0, 3)], list(rng.choice(W))])
        if rng.random() < 0.5:                  # normalise sum |w|^2 to 1 so that a norm-based criterion fires
            nrm = np.sqrt(sum(w[0] ** 2 + w[1] ** 2 for _, w in items))
            if nrm > 0:
                items = [[p, [w[0] / nrm, w[1] / nrm]] for p, w in items]
        out.append({"cls": "PauliOperator", "items": items})
        out.append({"cls": "WeightedPauliString", "p": items[0][0], "w": items[0][1]})
        out.append({"cls": "PauliString", "p": items[0][0]})
    for _ in range(12 if thorough else 4):
        n = rng.randint(1, 3)
        a = [[complex(round(rng.uniform(-1, 1), 3), round(rng.uniform(-1, 1), 3)) for _ in range(n)] for _ in range(n)]
        herm = [[(a[i][j] + a[j][i].conjugate()) / 2 for j in range(n)] for i in range(n)]
        for m in (herm, a):
            co = [[[c.real, c.imag] for c in row] for row in m]
            out.append({"cls": "FieldOperator", "n": n, "coeffs": co})
            out.append({"cls": "FieldOperatorTerm", "n": n, "coeffs": co})
        out.append({"cls": "MolecularHamiltonian", "n": n, "c": round(rng.uniform(-1, 1), 3), "herm": True,
                    "tkin": [[[c.real, c.imag] for c in row] for row in herm]})
        out.append({"cls": "MolecularHamiltonian", "n": n, "c": 0.5, "herm": False, "tkin": [[[c.real, c.imag] for c in row] for row in a]})
        out.append({"cls": "IsingHamiltonian", "n": rng.randint(2, 3), "J": round(rng.uniform(-1, 1), 3), "h": round(rng.uniform(-1, 1), 3),
                    "g": round(rng.uniform(-1, 1), 3)})
        out.append({"cls": "HeisenbergHamiltonian", "n": rng.randint(2, 3), "J": [round(rng.uniform(-1, 1), 3) for _ in range(3)],
                    "h": [round(rng.uniform(-1, 1), 3) for _ in range(3)]})
        out.append({"cls": "FermiHubbardHamiltonian", "n": 2, "t": round(rng.uniform(-1, 1), 3), "u": round(rng.uniform(-1, 1), 3),
                    "spin": rng.random() < 0.5})
    return out


def check_operator_flag(ctx, pid, d):
    """claim true => the matrix has the claimed property (the claim may also raise NotImplementedError: no claim)"""
    method = "is_unitary" if pid == "C01" else "is_hermitian"
    try:
        obj, mobj = build_operator(d)
    except Exception as e:
        ctx.count("operator_flags:not-constructible:" + d["cls"])
        return None
    fn = getattr(obj, method, None)
    if fn is None:
        return None
    try:
        claim = bool(fn())
    except NotImplementedError:
        ctx.count("operator_flags:%s.%s:raises" % (d["cls"], method))
        return None
    ctx.count("operator_flags:%s.%s:%s" % (d["cls"], method, claim))
    if claim:
        M = dense(mobj.as_matrix())
        dev = float(np.abs(M @ M.conj().T - np.eye(len(M))).max()) if pid == "C01" else float(np.abs(M - M.conj().T).max())
        if not dev <= TOLF:
            ctx.fail("operator-flag:%s.%s:claims-true-but-matrix-is-not" % (d["cls"], method), dict(d, flag_sweep=True),
                     "unitary matrix" if pid == "C01" else "Hermitian matrix", dev)
    return claim


NON_GATE_COVERED = {"PauliString", "WeightedPauliString", "PauliOperator", "FieldOperator", "FieldOperatorTerm", "IsingHamiltonian",
                    "HeisenbergHamiltonian", "FermiHubbardHamiltonian", "MolecularHamiltonian"}


def operator_flags(ctx, pid):
    """every class of qib.operator that has is_unitary() (C01) / is_hermitian() (C16): the gate classes are swept by the gate
    harnesses, control instructions have no matrix and answer False; every other class needs an instance generator here,
    so a newly added operator class (or a newly implemented flag method) cannot go unexamined"""
    import inspect
    import qib.operator as qop
    method = "is_unitary" if pid == "C01" else "is_hermitian"
    missing = []
    for name, obj in sorted(vars(qop).items()):
        if not (inspect.isclass(obj) and callable(getattr(obj, method, None))) or inspect.isabstract(obj):
            continue
        if issubclass(obj, qop.Gate):
            ctx.count("operator_flags:class-covered-by-gate-sweeps")
            continue
        if issubclass(obj, qop.ControlInstruction):
            try:
                inst = obj()
                if getattr(inst, method)():
                    ctx.fail("operator-flag:%s.%s:control-instruction-claims-true" % (name, method), {"cls": name, "flag_sweep": True})
            except Exception:
                pass
            continue
        if name not in NON_GATE_COVERED:
            missing.append(name)
    ctx.oblige("operator-flags:every-operator-class-has-an-instance-generator", "correspondence", not missing,
               "no instance generator for: %s" % ", ".join(missing))
    ctx.rules.append("operator flags (%s): every non-gate class of qib.operator found by introspection x instances (Pauli operators with "
                     "complex relative phases carried by the weight or by the string's q, anti-commuting normalised mixtures, commuting "
                     "mixtures, zero weights; field operators / molecular Hamiltonians with Hermitian and non-Hermitian coefficients; model "
                     "Hamiltonians): a claim True (a method that raises NotImplementedError claims nothing) must hold of as_matrix() to 1e-9"
                     % method)
    for d in operator_instances(ctx.rng, ctx.thorough):
        claim = check_operator_flag(ctx, pid, d)
        if claim:
            ctx.nontriv(("operator-flag", repr(d)[:1500]))


def replay_flag(ctx, pid, data):
    """True iff the replay input belongs to the operator-flag sweep (then handled here)"""
    inp = data.get("input")
    if not (isinstance(inp, dict) and inp.get("flag_sweep")):
        return False
    before = len(ctx.failing)
    if "items" in inp or "p" in inp or "coeffs" in inp or "n" in inp:
        check_operator_flag(ctx, pid, inp)
    new = ctx.failing[before:]
    del ctx.failing[before:]
    if new:
        ctx.fail(data["sig"], inp, data.get("expected"), new[0]["observed"])
    return True
