"""C03 - inverse() really inverts and acts on the same particles (elementary gate classes).
Shared machinery: checks/C01.py.  Composite gates and circuits: checks/gates_composite.py."""
import os
import numpy as np
from vlib import coqterm as ct
from checks import C01 as G


def qid(fields, q):
    """stable small integer for a particle (field number, lattice index)"""
    for k, f in enumerate(fields):
        if q.field is f:
            return 100 * k + int(q.index)
    return 9000 + int(getattr(q, "index", 0)) % 1000


def aval(fields, v):
    if v is None:
        return "VNone"
    if isinstance(v, (list, tuple)):
        return "(VList %s)" % ct.lst([ct.nat(qid(fields, q)) for q in v])
    return "(VObj %s)" % ct.nat(qid(fields, v))


def plist(fields, ps):
    return ct.lst(["None" if p is None else "(Some %s)" % ct.nat(qid(fields, p)) for p in ps])


def same_particles(a, b):
    if len(a) != len(b):
        return False
    for x, y in zip(a, b):
        if (x is None) != (y is None):
            return False
        if x is not None and not (x is y or x == y):
            return False
    return True


def inverse_atoms(desc, ev):
    """atoms / guard of the gate inverse() constructs, from the generated inverse form"""
    inv = ev.c["inverse"]
    if inv[0] == "self":
        return ev.atoms, ev.g, ev.inst.cls
    _, tname, mat, nw, attrs, on = inv
    if mat[0] == "adjself":
        return [], False, tname
    tc = desc["classes"][tname]
    ip = [G.eval_r(G.tuple_ast(r) if isinstance(r, list) else r, ev.inst.params, []) for r in mat[1]]
    at = G.eval_atoms(tc["atoms"], ip)
    return at, G.guard_value(tc, at), tname


def oracle_c03(ctx, qib, fields, ev, cases):
    inst = ev.inst
    if G.is_overflow(inst):
        return
    try:
        inv = ev.gate.inverse()
        Ui = np.asarray(inv.as_matrix(), dtype=complex)
        p0 = list(ev.gate.particles())
        p1 = list(inv.particles())
    except Exception as e:  # noqa
        ctx.fail("inverse:exception:" + inst.cls, inst.desc(), "a gate", repr(e))
        return
    U = ev.U
    if Ui.shape != U.shape or not (G.maxabs(Ui @ U - np.eye(len(U))) <= G.ORACLE_TOL
                                   and G.maxabs(U @ Ui - np.eye(len(U))) <= G.ORACLE_TOL):
        ctx.fail("inverse:not-inverse:" + inst.cls, inst.desc(), "||U_inv U - 1|| <= 1e-9",
                 G.maxabs(Ui @ U - np.eye(len(U))) if Ui.shape == U.shape else Ui.shape)
    if not same_particles(p0, p1):
        ctx.fail("inverse:particles-differ:" + inst.cls, inst.desc(), "particles(inverse) == particles, same order",
                 "%d vs %d particles" % (len(p1), len(p0)))
    if inv.num_wires != ev.gate.num_wires:
        ctx.fail("inverse:num-wires-differ:" + inst.cls, inst.desc(), ev.gate.num_wires, inv.num_wires)
    # circuit level: bound gates only
    if inst.binding:
        try:
            circ = qib.Circuit([ev.gate])
            fl = circ.fields()
            M, Mi = circ.as_matrix(fl), circ.inverse().as_matrix(fl)
            M = np.asarray(M.toarray() if hasattr(M, "toarray") else M)
            Mi = np.asarray(Mi.toarray() if hasattr(Mi, "toarray") else Mi)
            if not (G.maxabs(Mi @ M - np.eye(len(M))) <= G.ORACLE_TOL):
                ctx.fail("inverse:circuit-not-inverse:" + inst.cls, inst.desc(), "C.inverse() C = 1", G.maxabs(Mi @ M - np.eye(len(M))))
            ctx.count("circuit_checked")
        except Exception as e:  # noqa
            ctx.fail("inverse:circuit-exception:" + inst.cls, inst.desc(), "a matrix", repr(e))
    if cases is None:
        return
    desc = ev.desc
    iat, ig, tname = inverse_atoms(desc, ev)
    d = inst.desc()
    cname = type(inv).__name__
    if cname not in desc["classes"]:
        ctx.oblige("correspondence:inverse-class:" + inst.cls, "correspondence", False,
                   "inverse() returned an object of class %s, which is not modelled" % cname)
    else:
        cases.append(("CInvCls %s c%s" % (ev.coq_cls(), cname), dict(d, op="inverse-class")))
    tc = desc["classes"].get(tname, {})
    if ev.exact() and not tc.get("atoms"):
        cases.append(("CInvZ %s %s %s" % (ev.coq_cls(), ct.nat(inst.n), ct.zimat(Ui)), dict(d, op="inverse-matrix")))
    else:
        cases.append(("CInvF %s %s %s %s %s %s %s" % (
            ev.coq_cls(), ct.b(ev.g), ct.nat(inst.n), ct.lst([ct.fi(a) for a in ev.atoms]),
            ct.b(ig), ct.lst([ct.fi(a) for a in iat]), ct.fimat(Ui)), dict(d, op="inverse-matrix")))
    env = ct.lst(["(%s, %s)" % (ct.nat(k), aval(fields, getattr(ev.gate, a, None))) for k, a in enumerate(desc["attrs"])])
    cases.append(("CPart %s %s %s %s" % (ev.coq_cls(), env, plist(fields, p0), plist(fields, p1)), dict(d, op="particles")))


def run(ctx):
    ctx.rules.append("instances as in C01, unbound and bound (qubits of two fields; ctor / on()); inverse().as_matrix() vs the model "
                     "(target class and argument expressions from the generated inverse form, atoms of the constructed gate computed "
                     "by the harness; 2^-40 / exact), class of inverse(), particles() and inverse().particles() by qubit identity and order "
                     "vs the model of the generated particles()/constructor/on() forms; oracle on the implementation: ||U_inv U - 1||, "
                     "||U U_inv - 1|| <= 1e-9, same particles in the same order, same num_wires, and for bound gates "
                     "Circuit([g]).inverse() times Circuit([g]) = 1. non-trivial = constant gate or non-zero parameter")
    G.sweep(ctx, "C03", oracle_c03)
    G.run_composite(ctx, "C03")
    # circuit level ("for every circuit C and register ..."): coq/props/C03i.v + multi-gate circuit oracle
    if not os.environ.get("VERIF_ELEM_ONLY"):
        from checks import gates_composite
        gates_composite.circuit_level(ctx)
    G.second_opinion(ctx, ["Prop_C03", "Prop_C03i"])                  # Prop_C03i covers Prop_C03c


def replay(ctx, data):
    import qib
    if G.replay_composite(ctx, "C03", data):
        return
    inp = data["input"]
    try:
        gate, _ = G.build_gate(qib, G.make_fields(qib), inp)
        inv = gate.inverse()
        U, Ui = np.asarray(gate.as_matrix(), dtype=complex), np.asarray(inv.as_matrix(), dtype=complex)
        bad = Ui.shape != U.shape or not (G.maxabs(Ui @ U - np.eye(len(U))) <= G.ORACLE_TOL)
        bad = bad or not same_particles(list(gate.particles()), list(inv.particles()))
        if inp.get("bound"):
            circ = qib.Circuit([gate])
            fl = circ.fields()
            M, Mi = circ.as_matrix(fl), circ.inverse().as_matrix(fl)
            M = np.asarray(M.toarray() if hasattr(M, "toarray") else M)
            Mi = np.asarray(Mi.toarray() if hasattr(Mi, "toarray") else Mi)
            bad = bad or not (G.maxabs(Mi @ M - np.eye(len(M))) <= G.ORACLE_TOL)
    except Exception:
        bad = True
    if bad:
        ctx.fail(data["sig"], inp, data.get("expected"), "still fails")
