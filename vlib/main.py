"""./check Cxx [--tier quick|thorough] [--replay file]"""
import sys, os, json, argparse, importlib, traceback, warnings
HERE = os.path.dirname(os.path.dirname(os.path.abspath(__file__)))
sys.path.insert(0, HERE)
sys.path.insert(0, os.path.join(HERE, "gen"))
from vlib.core import Ctx, REPO
sys.path.insert(0, os.path.join(REPO, "src"))
warnings.filterwarnings("ignore")


def main():
    ap = argparse.ArgumentParser()
    ap.add_argument("prop")
    ap.add_argument("--tier", default=os.environ.get("VERIF_TIER", "quick"))
    ap.add_argument("--replay")
    a = ap.parse_args()
    seed = int(os.environ.get("VERIF_SEED", "0") or 0)
    tier = a.tier if a.tier in ("quick", "thorough") else "quick"
    ctx = Ctx(a.prop, tier, seed)
    mod = importlib.import_module("checks." + a.prop)
    if a.replay:
        data = json.load(open(a.replay))
        if data.get("kind") == "broken-obligation":
            mod.run(ctx)            # nothing concrete to replay: re-run the check itself
        else:
            mod.replay(ctx, data)
            # a replay only reports the recorded input
            if ctx.failing:
                print("VIOLATION property=%s replay=%s" % (a.prop, a.replay))
                return 1
            print("[%s] replay: input no longer fails" % a.prop)
            return 0
        return ctx.finish()
    try:
        mod.run(ctx)
        if ctx.thorough and not any(o["name"].startswith("coqchk:") for o in ctx.obligations):
            # second opinion: re-check every compiled property file (and all it depends on) with coqchk
            import glob
            for vo in sorted(glob.glob(os.path.join(ctx.build, "Prop_*.vo"))):
                ctx.coqchk("Run." + os.path.basename(vo)[:-3])
    except SystemExit:
        raise
    except Exception:
        # a crash of the harness itself is a machinery error; report it as a broken obligation
        ctx.oblige("harness", "correspondence", False, traceback.format_exc())
    return ctx.finish()


if __name__ == "__main__":
    sys.exit(main())
