"""Shared machinery of the qib verification checks.

A check (checks/Cxx.py) is a plugin with  run(ctx)  and optionally  replay(ctx, data).
It uses the Ctx below to
  * regenerate Coq definitions from /repo's source (translators, gen/*.py) and compile the
    property theorems against them                               -> ctx.props(...)
  * run the hand-written executable model inside Coq (vm_compute) on the same inputs the
    implementation was run on and report disagreements            -> ctx.cases(...)
  * record property violations found on the implementation         -> ctx.fail(...)
and Ctx.finish() turns that into the interface of MANIFEST.json: evidence file, replay
files, VIOLATION / KNOWN-FINDING lines and the exit status.
"""
import os, sys, json, time, subprocess, random, re, shutil, fcntl, hashlib, traceback
from concurrent.futures import ThreadPoolExecutor

VERIF = os.path.dirname(os.path.dirname(os.path.abspath(__file__)))
REPO = os.environ.get("QIB_REPO", "/repo")
COQ = os.path.join(VERIF, "coq")
NPROC = int(os.environ.get("VERIF_JOBS", "16"))

BASE_TRUSTED = [
    "Coq 8.16.1 kernel incl. its vm_compute machine (no native_compute); coqchk -o as a second opinion in the thorough tier",
    "translators gen/*.py (Python ast, fail-closed) that regenerate Coq definitions from /repo/src on every run",
    "correspondence harness (checks/*.py, vlib/): runs /repo/src and the Coq model on the same inputs; canonicalisation of outputs",
    "numpy/scipy primitives are modelled as mathematical functions (kron, einsum = defining sum, expm, sqrtm, qr, sparse arithmetic); binary64 rounding is not modelled",
]


def sh(cmd, timeout=600, cwd=None, env=None):
    t0 = time.time()
    try:
        p = subprocess.run(cmd, shell=isinstance(cmd, str), cwd=cwd, env=env, timeout=timeout,
                           stdout=subprocess.PIPE, stderr=subprocess.STDOUT, text=True)
        return p.returncode, p.stdout, time.time() - t0
    except subprocess.TimeoutExpired as e:
        out = e.stdout or ""
        if isinstance(out, bytes):
            out = out.decode("utf8", "replace")
        return 124, out + "\n[timeout after %ss]" % timeout, time.time() - t0


class Ctx:
    def __init__(self, pid, tier="quick", seed=0):
        self.pid, self.tier, self.seed = pid, tier, int(seed)
        self.rng = random.Random("%s-%d" % (pid, self.seed))
        self.t0 = time.time()
        # VERIF_SCRATCH=<tag>: separate build dir, evidence and replays are written there, so a
        # run against a scratch copy (QIB_REPO=...) never disturbs the registered outputs
        self.scratch = os.environ.get("VERIF_SCRATCH")
        self.build = os.path.join(VERIF, "build", pid + ("@" + self.scratch if self.scratch else ""))
        shutil.rmtree(self.build, ignore_errors=True)
        os.makedirs(self.build, exist_ok=True)
        self.obligations = []      # {name, kind, ok, detail}
        self.assumptions = {}      # theorem -> list of axioms
        self.failing = []          # property violations found on the implementation
        self.evaluations = 0
        self.traces = 0
        self.nontrivial = set()
        self.samples = []
        self.dist = {}
        self.rules = []
        self.checker_cmds = []
        self.trusted = list(BASE_TRUSTED)
        self.assumes = []
        self.notes = []
        self.known_printed = []
        self.exhaustive = None
        kf = os.path.join(VERIF, "known_findings.json")
        self.known = json.load(open(kf)) if os.path.exists(kf) else {"findings": [], "fixed": []}
        kd = os.path.join(VERIF, "known_findings.d")
        if os.path.isdir(kd):
            for fn in sorted(os.listdir(kd)):
                if fn.endswith(".json"):
                    extra = json.load(open(os.path.join(kd, fn)))
                    self.known["findings"] += extra.get("findings", [])
                    self.known["fixed"] += extra.get("fixed", [])

    # ------------------------------------------------------------------ utilities
    @property
    def thorough(self):
        return self.tier == "thorough"

    def log(self, *a):
        print("[%s %6.1fs]" % (self.pid, time.time() - self.t0), *a, flush=True)

    def count(self, key, n=1):
        self.dist[key] = self.dist.get(key, 0) + n

    def sample(self, s, cap=6):
        if len(self.samples) < cap:
            self.samples.append(s)

    def nontriv(self, key):
        self.nontrivial.add(key if isinstance(key, str) else repr(key))

    def oblige(self, name, kind, ok, detail=""):
        self.obligations.append({"name": name, "kind": kind, "ok": bool(ok), "detail": detail[-3000:]})
        if not ok:
            self.log("BROKEN %s %s: %s" % (kind, name, detail.strip()[-600:]))

    @property
    def broken(self):
        return [o for o in self.obligations if not o["ok"]]

    # ------------------------------------------------------------------ Coq
    def coq_args(self):
        return ["-Q", os.path.join(COQ, "theories"), "Qib", "-Q", self.build, "Run",
                "-w", "-notation-overridden,-deprecated-hint-without-locality,-deprecated-instance-without-locality"]

    def lib(self, targets=None):
        """Build the static library (theorems about the hand-written models). Full .vo build.
        targets: list like ["Pauli/PauliCheck", "Pauli/PauliProofs2"] (files under coq/theories
        without .v) -- only these and their dependencies are (re)built; None = everything."""
        lock = open(os.path.join(VERIF, "build", ".lock"), "w")
        fcntl.flock(lock, fcntl.LOCK_EX)
        try:
            if not os.path.exists(os.path.join(COQ, "Makefile")):
                rc, out, _ = sh("coq_makefile -f _CoqProject -o Makefile", cwd=COQ, timeout=60)
                if rc != 0:
                    raise SystemExit("coq_makefile failed:\n" + out)
            rc, out, _ = sh("coq_makefile -f _CoqProject -o Makefile", cwd=COQ, timeout=60)
            tg = " ".join("theories/%s.vo" % t for t in (targets or []))
            rc, out, dt = sh("make -j%d %s" % (NPROC, tg), cwd=COQ, timeout=3000)
            self.checker_cmds.append("make -C coq -j%d   # static library, full .vo build" % NPROC)
            if rc != 0:
                print(out[-4000:])
                raise SystemExit("static Coq library does not build (machinery error, not a verdict)")
            # forbidden-construct gate on the areas this check depends on (+ its property file)
            dirs = sorted({"theories/Base"} | {"theories/" + os.path.dirname(t) for t in (targets or [])}) \
                if targets else ["theories"]
            pf = "props/%s.v" % self.pid
            if os.path.exists(os.path.join(COQ, pf)):
                dirs.append(pf)
            rc, out, _ = sh(r"grep -rnE '\b(Admitted|admit|Axiom|Parameter|Conjecture|Unset Guard|bypass_check|type-in-type)\b' "
                            "--include=*.v %s || true" % " ".join(dirs), cwd=COQ)
            if out.strip():
                print(out)
                raise SystemExit("forbidden construct in the Coq development")
        finally:
            fcntl.flock(lock, fcntl.LOCK_UN)
            lock.close()

    def write(self, name, text):
        p = os.path.join(self.build, name)
        with open(p, "w") as f:
            f.write(text)
        return p

    def coqc(self, path, timeout=600):
        cmd = ["coqc"] + self.coq_args() + [path]
        rc, out, dt = sh(cmd, timeout=timeout, cwd=self.build)
        return rc == 0, out

    def translate(self, name, fn):
        """Run a translator (callable returning Coq text); fail closed."""
        try:
            text = fn()
        except Exception as e:  # translator refuses => broken tie
            self.oblige("translator:" + name, "translator", False,
                        "%s: %s" % (type(e).__name__, e))
            return False
        p = self.write(name + ".v", text)
        ok, out = self.coqc(p)
        self.checker_cmds.append("gen/%s -> build/%s/%s.v ; coqc" % (name, self.pid, name))
        self.oblige("translator:" + name, "translator", ok, out)
        return ok

    def props(self, src=None, timeout=900):
        """Compile the property theorem file coq/props/<pid>.v (which may import generated
        modules Run.*). Every `Theorem` in it is an obligation; Print Assumptions output is
        collected."""
        src = src or os.path.join(COQ, "props", self.pid + ".v")
        text = open(src).read()
        names = re.findall(r"^(?:Theorem|Corollary)\s+([A-Za-z0-9_']+)", text, re.M)
        base = os.path.splitext(os.path.basename(src))[0]
        dst = self.write("Prop_%s.v" % base, text)
        ok, out = self.coqc(dst, timeout=timeout)
        self.checker_cmds.append("coqc %s coq/props/%s.v" % (" ".join(self.coq_args()[:6]), base))
        failed_at = None
        if not ok:
            m = re.search(r'line (\d+), characters', out)
            ln = int(m.group(1)) if m else 0
            upto = "\n".join(text.split("\n")[:ln])
            prev = re.findall(r"^(?:Theorem|Corollary|Lemma|Definition|Example)\s+([A-Za-z0-9_']+)", upto, re.M)
            failed_at = prev[-1] if prev else "?"
        seen_fail = False
        for n in names:
            if ok:
                self.oblige(n, "theorem", True)
            else:
                # theorems textually before the failing point were accepted by coqc
                pos = text.find(n)
                before = failed_at and text.find(failed_at) > pos and not seen_fail
                if n == failed_at or not before:
                    seen_fail = True
                    self.oblige(n, "theorem", False, out if n == failed_at else "not reached")
                else:
                    self.oblige(n, "theorem", True)
        if not ok and failed_at not in names:
            self.oblige(failed_at or "props-file", "theorem", False, out)
        # assumptions: the k-th block of output belongs to the k-th Print Assumptions command
        pa = re.findall(r"^Print Assumptions\s+([A-Za-z0-9_'.]+)\s*\.", text, re.M)
        blocks = re.split(r"(?=^Closed under the global context|^Axioms:)", out, flags=re.M)
        blocks = [b for b in blocks if b.startswith("Closed under") or b.startswith("Axioms:")]
        for name, body in zip(pa, blocks):
            if body.startswith("Closed under"):
                self.assumptions[name] = []
            else:
                ax = re.findall(r"^([A-Za-z_][A-Za-z0-9_.']*)\s*:", body[len("Axioms:"):], re.M)
                self.assumptions[name] = sorted(a for a in set(ax) if a not in ("Warning", "File", "Error"))
        return ok, out

    def coqchk(self, module=None, timeout=1500):
        """Independent re-check of the compiled property file and everything it depends on
        (thorough tier). Records the axioms coqchk lists (kernel primitives filtered out)."""
        module = module or "Run.Prop_%s" % self.pid
        cmd = ["coqchk", "-o", "-silent"] + self.coq_args()[:6] + [module]
        rc, out, dt = sh(cmd, timeout=timeout, cwd=self.build)
        self.checker_cmds.append("coqchk -o -silent -Q coq/theories Qib -Q build/%s Run %s" % (self.pid, module))
        ax = []
        m = re.search(r"\* Axioms:(.*?)\n\s*\n\* ", out, re.S)
        if m:
            ax = [a.strip() for a in m.group(1).split("\n") if a.strip() and a.strip() != "<none>"]
        prim = [a for a in ax if ".PrimInt63." in a or ".PrimFloat." in a or ".PrimArray." in a]
        real = sorted(set(ax) - set(prim))
        bad = any(("type-in-type: <none>" not in out, "unsafe (co)fixpoints: <none>" not in out,
                   "positivity is assumed: <none>" not in out))
        self.oblige("coqchk:" + module, "theorem", rc == 0 and not bad, out[-1500:])
        self.notes.append("coqchk -o %s: %d kernel primitives (Int63/Float) listed as axioms; other axioms of all loaded "
                          "libraries: %s" % (module, len(prim), ", ".join(real) if real else "none"))
        return real

    def cases(self, suite, header, cases, fn="bad_cases", shard=300, timeout=900):
        """Evaluate the model on `cases` inside Coq.
        cases: list of (coq_term, python_description). Returns the list of disagreeing
        (index, description)."""
        if not cases:
            return []
        shards = [cases[i:i + shard] for i in range(0, len(cases), shard)]
        files = []
        for k, sh_cases in enumerate(shards):
            base = k * shard
            body = ";\n".join("(%d%%nat, %s)" % (base + i, c[0]) for i, c in enumerate(sh_cases))
            text = (header + "\nDefinition cs := [\n" + body + "\n].\n"
                    "Definition res := (List.length cs, %s cs).\n"
                    "Eval vm_compute in res.\n" % fn)
            files.append(self.write("cases_%s_%d.v" % (suite, k), text))

        def one(p):
            return self.coqc(p, timeout=timeout)

        with ThreadPoolExecutor(NPROC) as ex:
            results = list(ex.map(one, files))
        bad, evaluated = [], 0
        broken_files = []
        for p, (ok, out) in zip(files, results):
            flat = " ".join(out.split())
            m = re.search(r"= \((\d+)(?:%nat)?, \[(.*?)\]\)", flat)
            if not ok or not m:
                broken_files.append((p, out))
                continue
            evaluated += int(m.group(1))
            ids = [int(x) for x in re.findall(r"\d+", m.group(2))]
            bad += ids
        self.checker_cmds.append("coqc build/%s/cases_%s_*.v  (%d files, Eval vm_compute)" % (self.pid, suite, len(files)))
        self.evaluations += len(cases)
        self.traces += evaluated
        dis = [(i, cases[i][1]) for i in bad]
        if broken_files:
            self.oblige("correspondence:" + suite, "correspondence", False,
                        "case file did not evaluate: " + broken_files[0][1][-1500:])
        else:
            self.oblige("correspondence:" + suite, "correspondence", not dis,
                        "%d of %d cases disagree; first: %r" % (len(dis), len(cases), dis[:2]))
        return dis

    # ------------------------------------------------------------------ verdict
    def fail(self, sig, input, expected=None, observed=None, how=None):
        """A concrete property violation on the implementation."""
        for f in self.failing:
            if f["sig"] == sig:
                f["count"] += 1
                return
        self.failing.append({"sig": sig, "input": input, "expected": expected,
                             "observed": observed, "how": how, "count": 1})

    def known_sigs(self):
        return {k["sig"]: k for k in self.known.get("findings", []) if k["property"] == self.pid}

    def finish(self):
        known = self.known_sigs()
        rdir = os.path.join(self.build, "replays") if self.scratch else os.path.join(VERIF, "replays", self.pid)
        os.makedirs(rdir, exist_ok=True)
        lines, nviol = [], 0
        matched = []
        unlisted = [f for f in self.failing if f["sig"] not in known]
        for f in self.failing:
            if f["sig"] in known:
                matched.append(f["sig"])
                print("KNOWN-FINDING: property=%s %s" % (self.pid, known[f["sig"]]["what"]))
        for n, f in enumerate(unlisted):
            path = os.path.join(rdir, "%s_%d.json" % (self.tier, n))
            json.dump({"property": self.pid, "kind": "failing-input", "sig": f["sig"],
                       "input": f["input"], "expected": f["expected"], "observed": f["observed"],
                       "broken": [o["name"] for o in self.broken], "seed": self.seed,
                       "how_to": f["how"] or "./check %s --replay %s" % (self.pid, path)},
                      open(path, "w"), indent=1, default=str)
            lines.append("VIOLATION property=%s replay=%s" % (self.pid, path))
            nviol += 1
        # a broken obligation that is not explained by a KNOWN finding and for which no failing
        # input was found is still a violation (the property is no longer shown to hold)
        if self.broken and not unlisted:
            explained = all(o.get("explained") for o in self.broken)
            if not explained:
                path = os.path.join(rdir, "%s_broken.json" % self.tier)
                json.dump({"property": self.pid, "kind": "broken-obligation",
                           "broken": self.broken, "seed": self.seed,
                           "note": "the theorem / translator / correspondence suite named here no longer checks "
                                   "against /repo; the search found no concrete failing input",
                           "how_to": "./check %s --tier %s" % (self.pid, self.tier)},
                          open(path, "w"), indent=1, default=str)
                lines.append("VIOLATION property=%s replay=%s no-failing-input-found" % (self.pid, path))
                nviol += 1
        self.write_evidence(nviol, matched)
        for l in lines:
            print(l)
        print("[%s] %s: %d obligations, %d discharged, %d impl-vs-model cases, %d violations, %.1fs" % (
            self.pid, "FAIL" if nviol else "ok", len(self.obligations),
            sum(o["ok"] for o in self.obligations), self.traces, nviol, time.time() - self.t0))
        return 1 if nviol else 0

    def write_evidence(self, nviol, matched):
        axioms = sorted({a for v in self.assumptions.values() for a in v})
        tb = list(self.trusted)
        tb.append("axioms reported by Print Assumptions this run: " + (", ".join(axioms) if axioms else "none (closed under the global context)"))
        ev = {
            "property_id": self.pid, "tier": self.tier, "seed": self.seed, "level": "proof",
            "coverage": {
                "obligations": len(self.obligations),
                "discharged": sum(o["ok"] for o in self.obligations),
                "obligation_list": [{"name": o["name"], "kind": o["kind"], "ok": o["ok"]} for o in self.obligations],
                "checker_cmd": " ; ".join(dict.fromkeys(self.checker_cmds)) or "make -C coq",
                "trusted_base": tb,
                "print_assumptions": self.assumptions,
                # inputs that only went through the oracles are evaluations too
                "evaluations": max(self.evaluations, len(self.nontrivial)),
                "traces_validated_against_impl": self.traces,
                "distinct_nontrivial": len(self.nontrivial),
                "rule": " | ".join(self.rules),
                "samples": self.samples or ["(no cases generated)"],
                "input_distribution": self.dist,
                "known_findings_matched": matched,
                "notes": self.notes,
            },
            "assumptions": self.assumes,
            "wall_s": round(time.time() - self.t0, 2),
            "violations": nviol,
        }
        if isinstance(self.exhaustive, bool):
            ev["coverage"]["exhaustive"] = self.exhaustive
        elif self.exhaustive is not None:      # details about which sub-domains were enumerated completely
            ev["coverage"]["exhaustive_subdomains"] = self.exhaustive
        if self.scratch:
            json.dump(ev, open(os.path.join(self.build, "evidence.json"), "w"), indent=1, default=str)
            return
        os.makedirs(os.path.join(VERIF, "evidence"), exist_ok=True)
        json.dump(ev, open(os.path.join(VERIF, "evidence", self.pid + ".json"), "w"), indent=1, default=str)
