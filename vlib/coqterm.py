"""Python values -> Coq term text (explicit scopes everywhere)."""


def z(n):
    n = int(n)
    return "%d%%Z" % n if n >= 0 else "(%d)%%Z" % n


def nat(n):
    n = int(n)
    assert n >= 0
    return "%d%%nat" % n


def b(v):
    return "true" if v else "false"


def lst(items):
    return "[" + "; ".join(items) + "]"


def bits(v):
    return lst([b(int(t) != 0) for t in v])


def pair(*xs):
    return "(" + ", ".join(xs) + ")"


def opt(x):
    return "None" if x is None else "(Some %s)" % x


def zi(c):
    """complex with integer parts -> Gaussian integer"""
    c = complex(c)
    re_, im_ = c.real, c.imag
    assert re_ == int(re_) and im_ == int(im_), c
    return pair(z(int(re_)), z(int(im_)))


def zimat(m):
    return lst([lst([zi(c) for c in row]) for row in m])


def q(fr):
    """fractions.Fraction -> Q literal"""
    from fractions import Fraction
    fr = Fraction(fr)
    n, d = fr.numerator, fr.denominator
    return "(Qmake %s %d%%positive)" % (z(n), d)


def qi(c):
    """complex whose parts are exactly representable -> Gaussian rational"""
    from fractions import Fraction
    c = complex(c)
    return pair(q(Fraction(c.real)), q(Fraction(c.imag)))


def qimat(m):
    return lst([lst([qi(c) for c in row]) for row in m])


def flt(x):
    x = float(x)
    if x != x:
        return "PrimFloat.nan"
    if x == float("inf"):
        return "PrimFloat.infinity"
    if x == float("-inf"):
        return "PrimFloat.neg_infinity"
    h = x.hex()
    if h.startswith("-"):
        return "(%s)%%float" % h
    return "%s%%float" % h


def fi(c):
    c = complex(c)
    return pair(flt(c.real), flt(c.imag))


def fimat(m):
    return lst([lst([fi(c) for c in row]) for row in m])


def string_codes(s):
    return lst([nat(ord(ch)) for ch in s])
