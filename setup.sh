#!/bin/sh
# Build the static Coq library (full .vo build) from files on disk. Offline.
cd "$(dirname "$0")/coq" || exit 2
mkdir -p ../build
coq_makefile -f _CoqProject -o Makefile || exit 2
exec make -j16
