#!/bin/sh
# Build the static Coq library (full .vo build) from files on disk. Offline.
# Every ./check rebuilds the targets it depends on itself (and fails if they do not build),
# so a file that does not compile is reported by the check that needs it, not hidden here.
cd "$(dirname "$0")/coq" || exit 2
mkdir -p ../build
coq_makefile -f _CoqProject -o Makefile || exit 2
make -k -j16
rc=$?
[ $rc -ne 0 ] && echo "setup: some library files did not build (rc=$rc); the checks depending on them will report it"
exit 0
